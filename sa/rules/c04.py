"""C04 - cell-size distribution matches on shared edges and honours 'preserve'."""

from __future__ import annotations

import ast
from typing import Any, Dict, List

from ..model import AnalysisError, Repo, attr_chain, walk_shallow
from ..peval import NO_MATCH, Evaluator, NotEvaluable, Obj, Raised, Sym
from ..report import RuleRun
from ..util import literal_members
from . import c01, c03
from .c01 import _wire, eval_copy_preserving
from .c10 import _run

PROP = "C04"
TITLE = "Cell-size distribution matches on shared edges and honours 'preserve'"
DECIDES = (
    "abstract run of WirePropagateManager.copy_neighbours and Axis.copy_grading on symbolic wires/axes: an aligned neighbour is "
    "copied unchanged, an anti-aligned one inverted and - for chop lists - in reversed order, only defined sources are used "
    "(C04.ALIGNMENT-BRANCH); Block.format_grading prints simpleGrading only when all three axes are simple, is_simple compares every "
    "wire with the first, Grading.__eq__ compares the number of sections and all three entries of each (C04.SIMPLE-ONLY-IF-EQUAL); "
    "copy_preserving re-creates the chop with exactly the preserved quantity and the count, everything else unset, and invert "
    "(including the preserve remap) is applied for flipped neighbours (C04.PRESERVE-CARRIED); in WireChopManager.grade the axis-level "
    "add_chop that fills chop.results precedes every copy_preserving and every wire receives every chop in order "
    "(C04.RESULTS-BEFORE-COPY); the four wires of an axis point the same way (C01.AXIS-TABLE is cited)."
    " Axis.copy_grading is evaluated with real (symbolic) Chop records: whatever way the copies are made, the chops handed on equal Chop.copy_preserving(inverted=anti-aligned) of the neighbour's chops, in the right order; coincident wires are registered for all 12 x 12 wire pairs (C04.COINCIDENCE-COMPLETE = C01.NEIGHBOUR-SYMMETRY); grading twice starts from scratch on axis and wire level (C04.GRADE-IDEMPOTENT); the edgeGrading slot order (C04.AXIS-DIRECTION)."
    ' A second grade re-copies coincident gradings (part of C04.ALIGNMENT-BRANCH); WireChopManager.update resolves the axis with the mean wire length (C04.AXIS-LENGTH); Grading.inverted is complete (C04.INVERSION-COMPLETE = C03.INVERT-COMPLETE).'
    " After WireChopManager.grade every wire carries a grading built from the axis' own chops, not that of an already graded coincident wire (part of C04.RESULTS-BEFORE-COPY)."
    " is_simple compares every wire in both manager classes whatever chops the axis holds, format_single prints a wire's grading (parts of C04.SIMPLE-ONLY-IF-EQUAL)."
)
NOT_DECIDED = "realised cell sizes for given edge lengths, multi-section numerics."
ASSUMPTIONS = []


def alignment_branch(repo: Repo) -> RuleRun:
    r = RuleRun(PROP, "C04.ALIGNMENT-BRANCH", floor=8, what="aligned copy unchanged, anti-aligned copy inverted (and reversed for chop lists)")
    cn = repo.func("items.wires.manager.WirePropagateManager.copy_neighbours")
    a, b, c = Sym("va"), Sym("vb"), Sym("vc")

    def grading(name, defined=True):
        g = Obj(name)
        g.set("is_defined", defined)
        g.set("inverted", Obj(f"{name}.inverted", is_defined=defined))
        return g

    for label, verts, defined, want, own_defined in (
        ("aligned & defined", (a, b), True, "G", False),
        ("anti-aligned & defined", (b, a), True, "G.inverted", False),
        ("aligned but undefined", (a, b), False, "own", False),
        ("anti-aligned but undefined", (b, a), False, "own", False),
        # (a wire that is defined already when copy_neighbours runs is no scenario any more: since repair c828cc1 every grading pass
        #  starts from reset wires, and within one pass the source gradings do not change - not refreshing such a wire has become
        #  behaviour-preserving; seed C04-r3m3, which did that, sits in the neutral list)
    ):
        w = _wire(repo, "w", a, b)
        own = grading("own", own_defined)
        w.set("grading", own)
        co = _wire(repo, "co", *verts)
        co.set("grading", grading("G", defined))
        w.set("coincidents", {co})
        mgr = Obj("mgr", cls=repo.cls("items.wires.manager.WirePropagateManager"))
        untouched = _wire(repo, "w2", a, c)
        untouched.set("grading", grading("own2", False))
        mgr.set("wires", [w, untouched])
        mgr.set("chops", [])
        _run(Evaluator(repo=repo, module=cn.module), cn, [mgr])
        got = w.get("grading")._name
        r.check(
            got == want,
            cn,
            f"{label}: wire grading = {got}",
            f"copy_neighbours with a coincident wire that is {label}: the wire ends with grading '{got}', expected '{want}' "
            "(the written grading must describe the same physical sequence of cell sizes from either block)",
            cn.node,
            key=f"copy_neighbours:{label}",
        )
        r.check(untouched.get("grading")._name == "own2", cn, "wires without coincidents untouched", "copy_neighbours changes a wire that has no coincident wire", cn.node, key=f"copy_neighbours:{label}:other")

    # one axis, two defined neighbours of different orientation (a block between an upright and an upside-down one): the alignment is
    # decided wire by wire, not once per axis
    d, e = Sym("vd"), Sym("ve")
    for order in ((True, False), (False, True)):
        ws, want = [], []
        for i, (aligned, ends) in enumerate(zip(order, ((a, b), (d, e)))):
            w = _wire(repo, f"w{i}", *ends)
            w.set("grading", grading(f"own{i}", False))
            co = _wire(repo, f"co{i}", *(ends if aligned else ends[::-1]))
            co.set("grading", grading(f"G{i}", True))
            w.set("coincidents", {co})
            ws.append(w)
            want.append(f"G{i}" if aligned else f"G{i}.inverted")
        mgr = Obj("mgr", cls=repo.cls("items.wires.manager.WirePropagateManager"))
        mgr.set("wires", ws)
        mgr.set("chops", [])
        _run(Evaluator(repo=repo, module=cn.module), cn, [mgr])
        got = [w.get("grading")._name for w in ws]
        label = "first wire aligned, second anti-aligned" if order[0] else "first wire anti-aligned, second aligned"
        r.check(
            got == want,
            cn,
            f"two neighbours, {label}: {got}",
            f"copy_neighbours on an axis whose two wires meet differently oriented neighbours ({label}): the wires end with {got}, expected {want} - the orientation of the first neighbour is applied to the "
            "second: one of the two shared edges carries the neighbour's cell sequence the wrong way round",
            cn.node,
            key=f"copy_neighbours:mixed:{'af' if order[0] else 'fa'}",
        )
    # WirePropagateManager.grade(): the coincident gradings are copied on EVERY grade, also when the chops have already arrived
    gr = repo.func("items.wires.manager.WirePropagateManager.grade")
    for n_chops in (0, 2):
        w = _wire(repo, "w", a, b)
        w.set("grading", grading("own", False))
        co = _wire(repo, "co", a, b)
        co.set("grading", grading("G", True))
        w.set("coincidents", {co})
        mgr = Obj("mgr", cls=repo.cls("items.wires.manager.WirePropagateManager"))
        mgr.set("wires", [w])
        mgr.set("chops", [Obj(f"chop{i}") for i in range(n_chops)])
        mgr.set("length", 1)

        def ghook(ev, call: ast.Call, nm):
            if nm == "Grading":
                return Obj("fresh_grading", is_defined=False)
            if isinstance(call.func, ast.Attribute) and call.func.attr == "add_chop":
                return None
            return NO_MATCH

        _run(Evaluator(repo=repo, module=gr.module, call_hook=ghook), gr, [mgr])
        got = w.get("grading")._name
        r.check(got == "G", gr, f"grade() with {n_chops} chops held: coincident grading copied", f"WirePropagateManager.grade with {n_chops} chop(s) already on the axis leaves the wire with grading '{got}' although a coincident wire of another block is graded: the shared edge is re-solved from the chops alone and the two blocks write different cell sequences on it", gr.node, key=f"grade-copies:{n_chops}")
    # Axis.copy_grading - with real (symbolic) Chop records: whatever way the copies are made, each chop handed to
    # add_chop must equal Chop.copy_preserving(inverted=<anti-aligned>) of the neighbour's chop, in the right order
    cg = repo.func("items.wires.axis.Axis.copy_grading")
    axis_cls = repo.cls("items.wires.axis.Axis")
    chop_cls = repo.cls("grading.chop.Chop")
    fields = c01.chop_fields(repo)
    cp = repo.func("grading.chop.Chop.copy_preserving")

    def binop(op, x, y):
        if isinstance(op, ast.Div) and x == 1 and isinstance(y, Sym):
            return Sym(y.name[2:]) if y.name.startswith("1/") else Sym("1/" + y.name)
        if isinstance(op, ast.Div) and x == 1 and y == 1:
            return 1
        return NO_MATCH

    def mk_chop(name: str, given: str, preserve: str) -> Obj:
        o = Obj(name, cls=chop_cls)
        for f in fields:
            o.set(f, None)
        o.set(given, Sym(f"{name}.{given}"))
        o.set("preserve", preserve)
        o.set("results", {f: Sym(f"{name}.results.{f}") for f in fields if f != "preserve"})
        return o

    def snapshot(ch) -> Any:
        if not (isinstance(ch, Obj) and ch._cls is chop_cls):
            return repr(ch)
        return tuple((f, ch.get(f) if ch.has(f) else "<unset>") for f in fields)

    def base_hook(ev, call: ast.Call, nm):
        if nm == "int" and len(call.args) == 1:
            return ev.eval(call.args[0])
        if nm == "max" and len(call.args) == 2:
            vals = [ev.eval(x) for x in call.args]
            syms = [v for v in vals if isinstance(v, Sym)]
            if syms:
                return syms[0]
        return NO_MATCH

    def reference(ch: Obj, inverted: bool):
        ev = Evaluator(repo=repo, module=cp.module, call_hook=base_hook)
        ev.binop_hook = binop
        return snapshot(_run(ev, cp, [ch, inverted]))

    for label, aligned, nb_defined, self_defined in (
        ("aligned", True, True, False),
        ("anti-aligned", False, True, False),
        ("undefined neighbour", True, False, False),
        ("already defined", True, True, True),
        ("aligned, two divisions equal by value", True, True, False),
        ("anti-aligned, two divisions equal by value", False, True, False),
    ):
        chops = [mk_chop("chopA", "start_size", "start_size"), mk_chop("chopB", "count", "c2c_expansion"), mk_chop("chopC", "end_size", "end_size")]
        if "equal by value" in label:
            # saw-tooth multigrading: the same division twice - both must be copied
            chops = [mk_chop("chopS", "count", "c2c_expansion"), mk_chop("chopS", "count", "c2c_expansion"), mk_chop("chopC", "end_size", "end_size")]
        added: List[Any] = []
        graded = []

        def hook(ev, call: ast.Call, nm, added=added, graded=graded, aligned=aligned):
            if isinstance(call.func, ast.Attribute):
                if call.func.attr == "add_chop" and attr_chain(call.func.value) == "self.wires":
                    ch_ = ev.eval(call.args[0])
                    added.append(ch_)
                    ev.eval(call.func.value).get("chops").append(ch_)
                    return None
                if call.func.attr == "is_aligned":
                    return aligned
                if call.func.attr == "grade" and attr_chain(call.func.value) == "self":
                    graded.append(True)
                    return None
            return base_hook(ev, call, nm)

        this = Obj("axis", cls=axis_cls)
        this.set("is_defined", self_defined)
        this.set("wires", Obj("mgr", chops=[]))
        nb = Obj("neighbour")
        nb.set("is_defined", nb_defined)
        nbw = Obj("nbmgr")
        nbw.set("chops", chops)
        nb.set("wires", nbw)
        this.set("neighbours", {nb})
        ev = Evaluator(repo=repo, module=cg.module, call_hook=hook)
        ev.binop_hook = binop
        res = _run(ev, cg, [this])
        if not nb_defined or self_defined:
            r.check(added == [] and not res, cg, f"{label}: nothing copied", f"Axis.copy_grading with {label} copies {added} / returns {res!r}", cg.node, key=f"copy_grading:{label}")
            continue
        source = chops if aligned else list(reversed(chops))
        want = [reference(c, not aligned) for c in source]
        got = [snapshot(x) for x in added]
        diff = ""
        if got != want:
            if len(got) != len(want):
                diff = f"{len(got)} chops added instead of {len(want)}"
            else:
                for i, (g, w) in enumerate(zip(got, want)):
                    if g != w:
                        bad = [f"{fg[0]}={fg[1]} (expected {fw[1]})" for fg, fw in zip(g, w) if fg != fw] if isinstance(g, tuple) and isinstance(w, tuple) else [f"{g} instead of a Chop"]
                        diff = f"chop #{i} (from {source[i]._name}): " + ", ".join(bad[:4])
                        break
        r.check(
            got == want,
            cg,
            f"{label}: the chops handed to add_chop equal copy_preserving(inverted={not aligned}) of the neighbour's chops, in {'the same' if aligned else 'reversed'} order",
            f"Axis.copy_grading from an {label} neighbour: {diff}; expected the neighbour's chops {'in order' if aligned else 'in reverse order, each inverted'} with the "
            "resolved count and the preserved quantity carried over (the copy must describe the same physical cell sequence with the same count)",
            cg.node,
            key=f"copy_grading:{label}",
        )
        r.check(bool(graded), cg, "axis graded after copying", "Axis.copy_grading does not grade the axis after copying the chops", cg.node, key=f"copy_grading:{label}:grade")
    return r


alignment_branch.rule_id = "C04.ALIGNMENT-BRANCH"


# --------------------------------------------------------------------------------------------
def simple_only_if_equal(repo: Repo) -> RuleRun:
    r = RuleRun(PROP, "C04.SIMPLE-ONLY-IF-EQUAL", floor=30, what="simpleGrading only if every axis' four gradings are equal")
    fg = repo.func("items.block.Block.format_grading")
    for simple in ([True, True, True], [False, True, True], [True, False, True], [True, True, False], [False, False, False]):
        blk = Obj("block", cls=repo.cls("items.block.Block"))
        axes = []
        for i, s in enumerate(simple):
            mgr = Obj(f"mgr{i}")
            ax = Obj(f"axis{i}")
            ax.set("is_simple", s)
            ax.set("wires", mgr)
            axes.append(ax)
        blk.set("axes", axes)

        def hook(ev, call: ast.Call, nm):
            if isinstance(call.func, ast.Attribute) and call.func.attr in ("format_single", "format_all"):
                m = ev.eval(call.func.value)
                return f"<{call.func.attr}:{m._name}>"
            return NO_MATCH

        res = _run(Evaluator(repo=repo, module=fg.module, call_hook=hook), fg, [blk])
        if all(simple):
            want_kind, want_parts = "simpleGrading", [f"<format_single:mgr{i}>" for i in range(3)]
        else:
            want_kind, want_parts = "edgeGrading", [f"<format_all:mgr{i}>" for i in range(3)]
        ok = isinstance(res, str) and res.startswith(want_kind) and [p for p in res.replace("(", " ").replace(")", " ").split() if p.startswith("<")] == want_parts
        r.check(ok, fg, f"simple={simple}: {want_kind}", f"Block.format_grading with is_simple={simple} gives '{res}'; expected {want_kind} with {want_parts}: a block whose four edges have different gradings would be written with a single expansion per direction", fg.node, key=f"format:{simple}")
    # is_simple compares every wire with the first - in BOTH manager classes (an override counts), whatever chops the axis holds
    base_mgr = repo.cls("items.wires.manager.WireManagerBase")
    concrete = [c for c in sorted(repo.subclasses(base_mgr), key=lambda c: c.qualname)]
    r.require(len(concrete) >= 2, "WireChopManager / WirePropagateManager not found")
    chop_sets = {"no chops": [], "c2c-preserving chops": [Obj("chopA", preserve="c2c_expansion"), Obj("chopB", preserve="c2c_expansion")], "size-preserving chop": [Obj("chopC", preserve="start_size")]}
    for mcls in concrete:
        isimple = repo.find_method(mcls, "is_simple")
        fsingle = repo.find_method(mcls, "format_single")
        fall = repo.find_method(mcls, "format_all")
        r.require(isimple is not None and fsingle is not None and fall is not None, f"{mcls.name}: is_simple / format_single / format_all vanished")
        for cl, chops in chop_sets.items():
            for grads, want in (([5, 5, 5, 5], True), ([5, 5, 5, 6], False), ([5, 6, 5, 5], False), ([6, 5, 5, 5], False), ([5, 5, 6, 5], False)):
                mgr = Obj("mgr", cls=mcls)
                mgr.set("wires", [Obj(f"w{i}", grading=g) for i, g in enumerate(grads)])
                mgr.set("chops", list(chops))
                mgr.set("grading", 5)
                res = _run(Evaluator(repo=repo, module=isimple.module), isimple, [mgr])
                r.check(res is want, isimple, f"{mcls.name}, {cl}, gradings {grads}: is_simple={res}", f"{mcls.name}.is_simple = {res!r} for wire gradings {grads} ({cl}); expected {want}: the four edges of the direction differ, a single expansion per direction misdescribes three of them", isimple.node, key=f"is_simple:{mcls.name}:{cl}:{grads}")
        # format_single / format_all print what the WIRES carry (the axis-level grading is solved on the mean length)
        mgr = Obj("mgr", cls=mcls)
        mgr.set("wires", [Obj(f"w{i}", grading=Obj(f"g{i}", description=f"D{i}")) for i in range(4)])
        mgr.set("grading", Obj("axis_grading", description="AXIS"))
        mgr.set("chops", [])
        res = _run(Evaluator(repo=repo, module=fall.module), fall, [mgr])
        r.check(res == "D0 D1 D2 D3", fall, f"{mcls.name}.format_all lists the four wires in order", f"{mcls.name}.format_all = {res!r}; expected the four wire gradings in AXIS_PAIRS order", fall.node, key=f"format_all:{mcls.name}")
        res = _run(Evaluator(repo=repo, module=fsingle.module), fsingle, [mgr])
        r.check(res in ("D0", "D1", "D2", "D3"), fsingle, f"{mcls.name}.format_single prints one wire's grading", f"{mcls.name}.format_single = {res!r}: simpleGrading must print the grading the (four equal) wires carry - the axis-level grading is solved on the mean edge length and differs for over-determined chops", fsingle.node, key=f"format_single:{mcls.name}")
    # Grading.__eq__
    geq = repo.func("grading.grading.Grading.__eq__")

    def iso(ev, call: ast.Call, nm):
        if nm in ("math.isclose", "np.isclose", "isclose"):
            x, y = ev.eval(call.args[0]), ev.eval(call.args[1])
            return x == y
        return NO_MATCH

    base = [[10, 5, 2], [20, 7, 3]]
    cases = [("equal", [[10, 5, 2], [20, 7, 3]], True), ("fewer sections", [[10, 5, 2]], False), ("more sections", base + [[1, 1, 1]], False)]
    for s in range(2):
        for e, what in enumerate(("length ratio", "count", "expansion")):
            other = [list(x) for x in base]
            other[s][e] += 1
            cases.append((f"section {s} differs in {what}", other, False))
    for label, other, want in cases:
        g1 = Obj("g1", cls=repo.cls("grading.grading.Grading"))
        g1.set("specification", [list(x) for x in base])
        g2 = Obj("g2", cls=repo.cls("grading.grading.Grading"))
        g2.set("specification", other)
        res = _run(Evaluator(repo=repo, module=geq.module, call_hook=iso), geq, [g1, g2])
        r.check(res is want, geq, f"{label}: __eq__={res}", f"Grading.__eq__ = {res!r} when the other grading has {label}; expected {want}", geq.node, key=f"eq:{label}")
    return r


simple_only_if_equal.rule_id = "C04.SIMPLE-ONLY-IF-EQUAL"


# --------------------------------------------------------------------------------------------
def preserve_carried(repo: Repo) -> RuleRun:
    r = RuleRun(PROP, "C04.PRESERVE-CARRIED", floor=8, what="copy_preserving keeps count + the preserved quantity only; invert applied for flipped neighbours")
    chop = repo.cls("grading.chop.Chop")
    pres = literal_members(repo, chop.module, chop.class_annotations.get("preserve"))
    r.require(bool(pres), "Chop.preserve Literal not found")
    fn = repo.func("grading.chop.Chop.copy_preserving")
    # a copy leaves its source alone: the user's chop keeps what the user gave (a stored count would pin the count of every later edge)
    stores = [n for n in ast.walk(fn.node) if isinstance(n, (ast.Assign, ast.AugAssign, ast.AnnAssign)) for t in (n.targets if isinstance(n, ast.Assign) else [n.target]) if isinstance(t, ast.Attribute) and attr_chain(t.value) == fn.params[0]]
    r.check(not stores, fn, "copy_preserving does not modify the chop it copies", f"Chop.copy_preserving writes to its own source ('{ast.unparse(stores[0])[:60] if stores else ''}'): the user's chop now carries a value it was never given, and the next calculate() on another edge length reproduces that instead of the given parameters", stores[0] if stores else fn.node, key="copy:pure")
    ratio_fields = ["total_expansion", "c2c_expansion", "start_size", "end_size"]
    for p in pres:
        for inverted in (False, True):
            kwargs, was_inverted = eval_copy_preserving(repo, p, inverted)
            problems = []
            if kwargs.get(p) != Sym(f"results.{p}"):
                problems.append(f"{p} = {kwargs.get(p)!r} instead of results['{p}']")
            for f in ratio_fields:
                if f != p and kwargs.get(f) is not None:
                    problems.append(f"{f} = {kwargs.get(f)!r} is carried along although only '{p}' is to be preserved (over-determined chop)")
            if kwargs.get("count") != Sym("results.count"):
                problems.append(f"count = {kwargs.get('count')!r}")
            if kwargs.get("length_ratio") != Sym("self.length_ratio"):
                problems.append(f"length_ratio = {kwargs.get('length_ratio')!r}")
            if kwargs.get("preserve") != p:
                problems.append(f"preserve = {kwargs.get('preserve')!r}")
            if was_inverted is not inverted:
                problems.append(f"invert() {'not ' if inverted else ''}called for inverted={inverted}")
            r.check(not problems, fn, f"preserve={p}, inverted={inverted}", f"Chop.copy_preserving(preserve='{p}', inverted={inverted}): " + "; ".join(problems), fn.node, key=f"copy:{p}:{inverted}")
    # the preserve remap of invert (same construct as C03.INVERT-COMPLETE: this is the property it breaks)
    sub = c03.invert_complete(repo)
    for f in sub.findings:
        if ":preserve=" in f.construct:
            r.bad(f.construct.split("::")[0], f.detail, key=f.construct.split("::")[1])
            r.findings[-1].loc, r.findings[-1].stmt = f.loc, f.stmt
    for i in sub.instances:
        if ":preserve=" in i["construct"] and i["verdict"] == "ok":
            r.ok(i["construct"].split("::")[0], i["note"], key=i["construct"].split("::")[1])
    return r


preserve_carried.rule_id = "C04.PRESERVE-CARRIED"


# --------------------------------------------------------------------------------------------
def results_before_copy(repo: Repo) -> RuleRun:
    r = RuleRun(PROP, "C04.RESULTS-BEFORE-COPY", floor=4, what="axis-level add_chop (fills results) precedes copy_preserving; every wire gets every chop in order")
    fn = repo.func("items.wires.manager.WireChopManager.grade")
    events: List[Any] = []

    def mk_grading(name):
        g = Obj(name)
        g.set("length", 0)
        return g

    chops = [Obj("chopA"), Obj("chopB")]
    wires = []
    for i in range(4):
        w = Obj(f"w{i}")
        w.set("grading", mk_grading(f"w{i}.grading0"))
        w.set("length", Sym(f"len{i}"))
        w.set("is_valid", True)
        # every wire is shared with a block that is graded already, to other numbers
        cw = Obj(f"cw{i}")
        foreign = Obj(f"foreign{i}", is_defined=True, count=Sym("foreign-count"))
        foreign.set("inverted", Obj(f"foreign{i}.inverted", is_defined=True, count=Sym("foreign-count")))
        cw.set("grading", foreign)
        cw.set("coincidents", {w})
        w.set("coincidents", {cw})
        wires.append(w)
    this = Obj("mgr", cls=repo.cls("items.wires.manager.WireChopManager"))
    this.set("wires", wires)
    this.set("chops", chops)
    this.set("grading", mk_grading("axis.grading0"))
    counter = {"n": 0}

    def hook(ev, call: ast.Call, nm):
        if nm == "Grading":
            counter["n"] += 1
            return mk_grading(f"fresh{counter['n']}")
        if isinstance(call.func, ast.Attribute):
            recv_chain = attr_chain(call.func.value)
            if call.func.attr == "update" and recv_chain in ("self", None) or (call.func.attr == "update" and isinstance(call.func.value, ast.Call)):
                return None
            if call.func.attr == "is_aligned":
                return True
            if call.func.attr == "copy_preserving":
                src = ev.eval(call.func.value)
                events.append(("copy", src._name))
                return ("copy-of", src._name)
            if call.func.attr == "add_chop":
                recv = ev.eval(call.func.value)
                arg = ev.eval(call.args[0])
                if recv is this.get("grading"):
                    events.append(("axis-add", arg._name if isinstance(arg, Obj) else arg))
                else:
                    owner = [w for w in wires if recv is w or recv is w.get("grading")]
                    events.append(("wire-add", owner[0]._name if owner else repr(recv), arg))
                return None
        return NO_MATCH

    _run(Evaluator(repo=repo, module=fn.module, call_hook=hook), fn, [this])
    for ch in chops:
        adds = [i for i, e in enumerate(events) if e == ("axis-add", ch._name)]
        copies = [i for i, e in enumerate(events) if e == ("copy", ch._name)]
        r.check(len(adds) == 1, fn, f"{ch._name}: added to the axis grading once", f"WireChopManager.grade adds {ch._name} to the axis grading {len(adds)} times", fn.node, key=f"axis-add:{ch._name}")
        r.check(bool(adds) and bool(copies) and min(copies) > adds[0], fn, f"{ch._name}: results computed before the first copy", f"{ch._name}.copy_preserving() is called before the axis-level add_chop has computed chop.results (count from the average length)", fn.node, key=f"order:{ch._name}")
    for w in wires:
        got = [e[2] for e in events if e[0] == "wire-add" and e[1] == w._name]
        r.check(got == [("copy-of", "chopA"), ("copy-of", "chopB")], fn, f"{w._name}: receives copies of all chops in order", f"wire {w._name} receives {got}; expected a preserving copy of every chop of the axis, in order", fn.node, key=f"wire:{w._name}")
    # a chopped axis is graded from ITS OWN chops: the hex entry carries the count of the axis grading, so the wires must carry the
    # gradings those chops produced - not the grading of a neighbouring block that happens to be graded already (the four wires
    # would then agree with each other and with their coincident wires, check_consistency stays silent, and the block is written
    # with its own count in the hex entry and the neighbours' counts on its edges)
    fresh_axis = this.get("grading")
    for w in wires:
        g = w.get("grading")
        name = g._name if isinstance(g, Obj) else repr(g)
        r.check(
            isinstance(g, Obj) and name.startswith("fresh") and g is not fresh_axis,
            fn,
            f"{w._name}: carries a grading built from the axis' own chops",
            f"after WireChopManager.grade wire {w._name} carries '{name}' - the grading of a coincident wire of another block - instead of the one built from this axis' chops: "
            "the count written in the hex entry (axis grading) and the count on the block's edges differ and no consistency check can see it",
            fn.node,
            key=f"own-grading:{w._name}",
        )
    return r


results_before_copy.rule_id = "C04.RESULTS-BEFORE-COPY"


def axis_direction(repo: Repo) -> RuleRun:
    res = c01.axis_table(repo)
    res.prop, res.rule = PROP, "C04.AXIS-DIRECTION"
    for f in res.findings:
        f.property, f.rule = PROP, "C04.AXIS-DIRECTION"
    return res


axis_direction.rule_id = "C04.AXIS-DIRECTION"

def coincidence_complete(repo: Repo) -> RuleRun:
    """'the same sequence on a shared edge from every block' needs every pair of coincident wires registered whatever
    the relative orientation of the two blocks (all 12 x 12 wire pairs): the rule of C01.NEIGHBOUR-SYMMETRY."""
    from ..report import rebrand

    return rebrand(c01.neighbour_symmetry(repo), PROP, "C04.COINCIDENCE-COMPLETE")


coincidence_complete.rule_id = "C04.COINCIDENCE-COMPLETE"


def grade_idempotent(repo: Repo) -> RuleRun:
    """The axis-level count and the wires' sequences stay in step only if grading again starts from scratch on both
    levels: the rule of C01.GRADE-IDEMPOTENT."""
    from ..report import rebrand

    return rebrand(c01.grade_idempotent(repo), PROP, "C04.GRADE-IDEMPOTENT")


grade_idempotent.rule_id = "C04.GRADE-IDEMPOTENT"

def axis_length(repo: Repo) -> RuleRun:
    """'axis-level count from the AVERAGE length': the length a chopped axis resolves its count with is a symmetric function
    of its four wires (their mean), and each wire then gets its own length - otherwise the count of the whole family depends on
    which corner of the chopped block happens to be corner 0. Abstract run of WireChopManager.update on four wires of lengths
    4, 8, 12, 16 in two orders (float arithmetic on this toy model only)."""
    r = RuleRun(PROP, "C04.AXIS-LENGTH", floor=3, what="WireChopManager.update: axis grading length = mean of the four wire lengths (order-independent); each wire grading gets its own length")
    upd = repo.func("items.wires.manager.WireChopManager.update")
    cls = repo.cls("items.wires.manager.WireChopManager")
    results = []
    for order in ((4.0, 8.0, 12.0, 16.0), (16.0, 12.0, 4.0, 8.0)):
        wires = []
        for i, ln in enumerate(order):
            w = Obj(f"w{i}")
            w.set("edge", Obj(f"e{i}", length=ln))
            w.set("length", ln)
            w.set("is_valid", True)
            w.set("grading", Obj(f"g{i}", length=0.0))
            wires.append(w)
        mgr = Obj("mgr", cls=cls)
        mgr.set("wires", wires)
        mgr.set("chops", [])
        mgr.set("grading", Obj("axis_grading", length=0.0))
        ev = Evaluator(repo=repo, module=upd.module)
        ev.float_arith = True
        _run(ev, upd, [mgr])
        results.append(mgr.get("grading").get("length"))
        own = [w.get("grading").get("length") for w in wires]
        r.check(own == list(order), upd, f"wires {order}: every wire grading gets its own length", f"WireChopManager.update gives the wire gradings the lengths {own} for wires of length {order}", upd.node, key=f"wire-lengths:{order[0]}")
    ok = all(isinstance(x, (int, float)) and abs(x - 10.0) < 1e-9 for x in results)
    r.check(
        ok,
        upd,
        "axis length = 10.0 = mean(4, 8, 12, 16) in both wire orders",
        f"WireChopManager.update resolves the axis with length {results} for wires of length 4, 8, 12, 16 listed in two orders; expected their mean 10.0 both times - a single wire's length makes "
        "the cell count of the whole family depend on the corner numbering of the chopped block",
        upd.node,
        key="axis-length",
    )
    return r


axis_length.rule_id = "C04.AXIS-LENGTH"

def inversion_complete(repo: Repo) -> RuleRun:
    """An anti-aligned neighbour gets Grading.inverted: every section keeps its length ratio and count together with its reciprocal expansion, in reversed order. Same rule as C03.INVERT-COMPLETE."""
    from ..report import rebrand
    from . import c03

    return rebrand(c03.invert_complete(repo), PROP, "C04.INVERSION-COMPLETE")


inversion_complete.rule_id = "C04.INVERSION-COMPLETE"

def live_grading_length(repo: Repo) -> RuleRun:
    """'... that size is realised on each of the block's four parallel edges and on every block the chop propagates to ...
    whatever the individual edge lengths (curved edges)': a chop is resolved against the length stored in the wire's Grading.
    That object is created in Wire.__init__, when the wire still has its default straight edge (and before anything was moved),
    so every path that resolves chops on a wire - the chopped axis AND the axis that copies its chops from a neighbour - must
    first give the wire's grading the wire's CURRENT length. Abstract run of grade() of every wire-manager class on four wires
    whose stored grading length is stale: the length in the grading at the moment add_chop is called must be the wire's own."""
    r = RuleRun(PROP, "C04.LIVE-GRADING-LENGTH", floor=8, what="every wire manager resolves chops on a wire against the wire's current length (not the length stored when the wire was created with a straight edge)")
    base = repo.cls("items.wires.manager.WireManagerBase")
    managers = [c for c in repo.subclasses(base) if c is not base and "grade" in c.methods and not getattr(c, "is_abstract", False)]
    r.require(len(managers) >= 2, f"only {len(managers)} wire-manager classes found")
    for cls in sorted(managers, key=lambda c: c.qualname):
        fn = cls.methods["grade"]
        wires = []
        for i in range(4):
            w = Obj(f"w{i}")
            g = Obj(f"w{i}.grading0", is_defined=False)
            g.set("length", Sym(f"stale{i}"))
            w.set("grading", g)
            w.set("length", Sym(f"now{i}"))
            w.set("is_valid", True)
            w.set("edge", Obj(f"e{i}", length=Sym(f"now{i}")))
            w.set("coincidents", set())
            wires.append(w)
        this = Obj("mgr", cls=cls)
        this.set("wires", wires)
        this.set("chops", [Obj("chopA")])
        this.set("grading", Obj("axis.grading0", length=Sym("axis-stale"), is_defined=False))
        seen: Dict[str, List[Any]] = {w._name: [] for w in wires}
        counter = {"n": 0}

        def hook(ev, call: ast.Call, nm, wires=wires, seen=seen, counter=counter):
            if nm == "Grading":
                counter["n"] += 1
                try:
                    ln = ev.eval(call.args[0]) if call.args else Sym("no-length")
                except NotEvaluable:
                    ln = Sym("axis-length")
                g = Obj(f"fresh{counter['n']}", is_defined=False)
                g.set("length", ln)
                return g
            if nm == "sum":
                return Sym("sum")
            if isinstance(call.func, ast.Attribute):
                if call.func.attr == "copy_preserving":
                    return Obj("chop-copy")
                if call.func.attr == "add_chop":
                    recv = ev.eval(call.func.value)
                    for w in wires:
                        if recv is w or recv is w.get("grading"):
                            seen[w._name].append(w.get("grading").get("length"))
                            w.get("grading").set("is_defined", True)
                    return None
            return NO_MATCH

        ev = Evaluator(repo=repo, module=fn.module, call_hook=hook)
        ev.opaque_arith = True
        _run(ev, fn, [this])
        for i, w in enumerate(wires):
            got = seen[w._name]
            r.require(bool(got), f"{cls.name}.grade resolves no chop on wire {i} of the model")
            ok = all(isinstance(x, Sym) and x.name == f"now{i}" for x in got)
            r.check(
                ok,
                fn,
                f"{cls.name}: wire {i} resolved against its current length",
                f"{cls.name}.grade resolves the chops of wire {i} against the length {got[0]!r} stored in its Grading when the wire was created (straight default edge, original vertex positions) "
                f"instead of the wire's current length: on a curved or moved edge the preserved first / last cell size is not realised (an arc of length 1.571 over a chord of 1.0 gets cells 57 % too large)",
                fn.node,
                key=f"{cls.name}:wire{i}",
            )
    return r


live_grading_length.rule_id = "C04.LIVE-GRADING-LENGTH"


def no_rounding(repo: Repo) -> RuleRun:
    """'the written grading describes the same physical sequence of cell sizes': counts and expansions are written as computed - a count written as a rounded fraction of the total moves a cell from one section to the next on long edges. Same rule as C03.NO-ROUNDING."""
    from ..tolerance import no_rounding_rule

    return no_rounding_rule(repo, PROP, "C04.NO-ROUNDING", ("grading.",))


no_rounding.rule_id = "C04.NO-ROUNDING"


def no_memo(repo: Repo) -> RuleRun:
    """'a block is written with a single expansion per direction only if its four edges really have equal gradings' - as they are when the file is written: nothing in the wire managers / gradings memoises a view of state that a later grading pass changes. Same rule body as C03.NO-MEMO."""
    from ..memo import memo_rule

    return memo_rule(repo, PROP, "C04.NO-MEMO", ("grading.", "items.wires.", "items.block"), floor=0)


no_memo.rule_id = "C04.NO-MEMO"


def alignment_symmetry(repo: Repo) -> RuleRun:
    """'reversed order with reciprocal expansions when opposite': whether two axes / wires run the same way is answered for the pair asked about, every time. Same rule as C01.COINCIDENCE-SYMMETRY."""
    from ..report import rebrand

    return rebrand(c01.coincidence_symmetry(repo), PROP, "C04.ALIGNMENT-SYMMETRY")


alignment_symmetry.rule_id = "C04.ALIGNMENT-SYMMETRY"



def grade_replay(repo: Repo) -> RuleRun:
    """'coincident edges carry the same gradings' on every write: the copies of a second grading pass are taken from gradings of THIS pass - every block is reset before the first one is graded, and a propagating manager drops the chops it copied. Same rule as C12.GRADE-REPLAY."""
    from ..report import rebrand
    from . import c12

    return rebrand(c12.grade_replay(repo), PROP, "C04.GRADE-REPLAY")


grade_replay.rule_id = "C04.GRADE-REPLAY"


def shared_curve(repo: Repo) -> RuleRun:
    """'the preserved cell size is realised on every edge': on the length of the CURVE of a shared edge, in every block that shares it and whichever way its wire runs. Same rule as C07.SHARED-CURVE."""
    from ..report import rebrand
    from . import c07

    return rebrand(c07.shared_curve(repo), PROP, "C04.SHARED-CURVE")


shared_curve.rule_id = "C04.SHARED-CURVE"


RULES = [alignment_branch, simple_only_if_equal, preserve_carried, results_before_copy, axis_direction, coincidence_complete, grade_idempotent, axis_length, inversion_complete, live_grading_length, no_rounding, no_memo, alignment_symmetry, grade_replay, shared_curve]

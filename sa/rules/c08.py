"""C08 - alternative arc specifications equal the analytic circle (structural clauses only)."""

from __future__ import annotations

import ast
from typing import Any, List

from ..model import AnalysisError, Repo, attr_chain
from ..peval import NO_MATCH, Evaluator, Obj, Sym
from ..report import RuleRun
from .c10 import _run

PROP = "C08"
TITLE = "Alternative arc specifications equal the analytic circle"
DECIDES = (
    "the inverse cosines on the way to an arc length / an angle between directions (functions.arc_length_3point, angle_between) "
    "cannot be handed a value outside [-1, 1] by rounding - the cosine is clipped on both sides (C08.TRIG-DOMAIN: without it a "
    "fifth of all half circles in general position have length NaN); the arc edges hand their data to the arc routines in the "
    "right slots - vertex_1/vertex_2 as first/second end point, the angle with its axis, the origin with its flatness, the "
    "computed third point as the MIDDLE argument of the three-point length, and the chord length as the fall-back of an invalid "
    "arc; the written line is 'arc v1 v2 (third point)' (C08.ARG-PAIRING, abstract run of the properties); lengths in the arc "
    "modules are taken of vectors, never of positions (C08.AFFINE-KINDS)."
    ' The centre built by arc_length_3point is the circumcentre of its three arguments - exact identity in a rational-function domain (C08.CIRCUMCENTRE); arc_from_origin adjusts the given centre iff the origin is not equidistant or a flatness other than 1 is asked for, on a toy model with chosen lengths (C08.ADJUST-ONLY-WHEN-NEEDED).'
    ' The reflex decision of arc_length_3point is right for 132 exactly evaluated arcs, given point anywhere along the sweep, both senses (C08.REFLEX-DECISION); the validity tests of arcs are absolute and unsquared (C08.VALIDITY-TOLERANCE); the converted arc point is not memoised (C08.NO-MEMO).'
    ' arc_from_theta returns the exact half-way point of the sector for 48 minor and reflex sectors of either sense, evaluated over exact rational vectors (C08.REFLEX-MIDPOINT); EdgeList keeps the vertex order of a new edge (C08.EDGE-ENDS); the conversion does not modify the stored axis / angle (C08.ARGUMENTS-UNTOUCHED).'
)
NOT_DECIDED = (
    "everything trigonometric: that the middle point lies on the described circle, half-way, on the intended side; that the length is radius "
    "times included angle; reflex sectors; length >= chord. Those are identities over reals and are left to other technique families."
)
ASSUMPTIONS = ["numpy's arccos returns NaN (with a RuntimeWarning) outside [-1, 1]; np.clip(x, -1, 1) maps into the domain"]


def trig_domain(repo: Repo) -> RuleRun:
    from ..domain import inverse_trig_rule

    return inverse_trig_rule(repo, PROP, "C08.TRIG-DOMAIN", ("util.functions", "items.edges.arcs"), floor=2)


trig_domain.rule_id = "C08.TRIG-DOMAIN"


def arg_pairing(repo: Repo) -> RuleRun:
    r = RuleRun(PROP, "C08.ARG-PAIRING", floor=6, what="arc edges pass vertex_1 / vertex_2 / angle+axis / origin+flatness / third point to the arc routines in the right slots")
    v1, v2 = Obj("vertex_1", position=Sym("P1"), index=11), Obj("vertex_2", position=Sym("P2"), index=22)

    def record(names):
        rec: List[Any] = []

        def hook(ev, call: ast.Call, nm):
            last = (nm or "").split(".")[-1]
            if last in names:
                args = [ev.eval(a) for a in call.args]
                kwargs = {kw.arg: ev.eval(kw.value) for kw in call.keywords if kw.arg}
                rec.append((last, args, kwargs))
                return Sym(f"{last}()")
            if last == "Point" and call.args:
                return Obj("third", position=ev.eval(call.args[0]), description="(third)")
            if last in ("any", "isnan"):
                return False
            return NO_MATCH

        return rec, hook

    # AngleEdge.third_point -> arc_from_theta(p1, p2, angle, axis)
    ae = repo.cls("items.edges.arcs.angle.AngleEdge")
    tp = ae.methods.get("third_point")
    r.require(tp is not None, "AngleEdge.third_point vanished")
    rec, hook = record({"arc_from_theta"})
    edge = Obj("edge", cls=ae)
    edge.set("vertex_1", v1)
    edge.set("vertex_2", v2)
    edge.set("data", Obj("data", angle=Sym("ANGLE"), axis=Obj("axis", components=Sym("AXIS"))))
    _run(Evaluator(repo=repo, module=tp.module, call_hook=hook), tp, [edge])
    callee = repo.func("items.edges.arcs.angle.arc_from_theta")
    want = dict(zip(callee.params, [Sym("P1"), Sym("P2"), Sym("ANGLE"), Sym("AXIS")]))
    got = _bound(callee, rec)
    r.check(got == want, tp, "arc_from_theta(vertex_1, vertex_2, angle, axis components)", f"AngleEdge.third_point calls arc_from_theta with {got}; expected {want}", tp.node, key="AngleEdge.third_point")

    # OriginEdge.third_point -> arc_from_origin(p1, p2, origin, adjust_center, flatness)
    oe = repo.cls("items.edges.arcs.origin.OriginEdge")
    tp = oe.methods.get("third_point")
    r.require(tp is not None, "OriginEdge.third_point vanished")
    rec, hook = record({"arc_from_origin"})
    edge = Obj("edge", cls=oe)
    edge.set("vertex_1", v1)
    edge.set("vertex_2", v2)
    edge.set("adjust_center", Sym("ADJUST"))
    edge.set("data", Obj("data", flatness=Sym("FLAT"), origin=Obj("origin", position=Sym("ORIGIN"))))
    _run(Evaluator(repo=repo, module=tp.module, call_hook=hook), tp, [edge])
    callee = repo.func("items.edges.arcs.origin.arc_from_origin")
    got = _bound(callee, rec)
    want = {"edge_point_1": Sym("P1"), "edge_point_2": Sym("P2"), "center": Sym("ORIGIN"), "adjust_center": Sym("ADJUST"), "r_multiplier": Sym("FLAT")}
    r.check(got == want, tp, "arc_from_origin(vertex_1, vertex_2, origin, adjust_center, flatness)", f"OriginEdge.third_point calls arc_from_origin with {got}; expected {want}", tp.node, key="OriginEdge.third_point")

    # the recursive call after the centre was adjusted keeps the end points in place and switches adjustment off
    calls = [n for n in ast.walk(callee.node) if isinstance(n, ast.Call) and (attr_chain(n.func) or "") == "arc_from_origin"]
    r.require(len(calls) >= 1, "arc_from_origin no longer re-enters itself with the adjusted centre")
    ends = {}
    for n in ast.walk(callee.node):
        if isinstance(n, ast.Assign) and isinstance(n.targets[0], ast.Name) and isinstance(n.value, ast.Name) and n.value.id in ("edge_point_1", "edge_point_2"):
            ends[n.targets[0].id] = n.value.id
    for k, c in enumerate(calls):
        a = [ends.get(x.id, x.id) if isinstance(x, ast.Name) else ast.unparse(x) for x in c.args]
        ok = a[:2] == ["edge_point_1", "edge_point_2"] and len(c.args) >= 4 and isinstance(c.args[3], ast.Constant) and c.args[3].value is False
        r.check(ok, callee, "re-entry with (p1, p2, new centre, adjust=False)", f"arc_from_origin re-enters itself as '{ast.unparse(c)}': the end points must stay (first, second) and the adjustment must be switched off (else it recurses / swaps the arc's ends)", c, key=f"arc_from_origin:reentry#{k}")

    # ArcEdgeBase.length: valid -> arc_length_3point(p1, THIRD, p2); invalid -> |p1 - p2|
    ab = repo.cls("items.edges.arcs.arc_base.ArcEdgeBase")
    ln = ab.methods.get("length")
    r.require(ln is not None, "ArcEdgeBase.length vanished")
    for valid in (True, False):
        rec, hook = record({"arc_length_3point", "norm"})

        def hook2(ev, call, nm, hook=hook):
            if (nm or "").split(".")[-1] == "norm" and call.args and isinstance(call.args[0], ast.BinOp) and isinstance(call.args[0].op, ast.Sub):
                a, b = ev.eval(call.args[0].left), ev.eval(call.args[0].right)
                return ("dist", frozenset((repr(a), repr(b))))
            return hook(ev, call, nm)

        edge = Obj("edge", cls=ab)
        edge.set("vertex_1", v1)
        edge.set("vertex_2", v2)
        edge.set("is_valid", valid)
        edge.set("third_point", Obj("third", position=Sym("P3"), description="(third)"))
        res = _run(Evaluator(repo=repo, module=ln.module, call_hook=hook2), ln, [edge])
        if valid:
            got = rec[0][1] if rec and rec[0][0] == "arc_length_3point" else None
            r.check(got == [Sym("P1"), Sym("P3"), Sym("P2")], ln, "arc_length_3point(vertex_1, third point, vertex_2)", f"ArcEdgeBase.length of a valid arc calls {rec}; the third point must be the MIDDLE argument (the arc runs from vertex_1 through it to vertex_2)", ln.node, key="length:valid")
        else:
            r.check(res == ("dist", frozenset(("P1", "P2"))), ln, "invalid arc: chord length", f"ArcEdgeBase.length of an invalid (collinear / zero) arc returns {res!r}; expected the distance between its end points", ln.node, key="length:invalid")

    # description: 'arc v1 v2 (third point)'
    ds = ab.methods.get("description")
    r.require(ds is not None, "ArcEdgeBase.description vanished")
    edge = Obj("edge", cls=ab)
    edge.set("vertex_1", v1)
    edge.set("vertex_2", v2)
    edge.set("third_point", Obj("third", position=Sym("P3"), description="(third)"))
    res = _run(Evaluator(repo=repo, module=ds.module), ds, [edge])
    toks = res.split() if isinstance(res, str) else []
    r.check(toks == ["arc", "11", "22", "(third)"], ds, "'arc v1 v2 (third)'", f"ArcEdgeBase.description is {res!r}; expected 'arc <vertex_1> <vertex_2> <third point>'", ds.node, key="description")
    return r


def _bound(callee, rec):
    if len(rec) != 1:
        return {"calls": len(rec)}
    _, args, kwargs = rec[0]
    out = dict(zip(callee.params, args))
    out.update(kwargs)
    return out


arg_pairing.rule_id = "C08.ARG-PAIRING"


def affine_kinds(repo: Repo) -> RuleRun:
    from ..affine import kinds_rule

    return kinds_rule(repo, PROP, "C08.AFFINE-KINDS", ("items.edges.arcs", "util.functions"), floor=5)


affine_kinds.rule_id = "C08.AFFINE-KINDS"

EVEN = {"abs", "fabs", "cos", "cosh", "square"}


def sign_flows(repo: Repo) -> RuleRun:
    """A negative sector angle describes the arc on the other side of the chord. That needs the SIGN of `angle` to reach
    the computed centre: if every use of the parameter (outside the range check that only raises) sits under an even
    function - abs(), cos(), a square - then arc_from_theta(angle) == arc_from_theta(-angle) and clockwise revolves get the
    arc of the counter-clockwise one (parity as an information-flow fact, not trigonometry)."""
    from ..model import parent

    r = RuleRun(PROP, "C08.SIGN-FLOWS", floor=1, what="the sign of the sector angle reaches the arc centre (not every use of `angle` is under an even function)")
    fn = repo.func("items.edges.arcs.angle.arc_from_theta")
    r.require("angle" in fn.params, "arc_from_theta no longer has an `angle` parameter")
    uses = []
    aliases = {"angle"}
    for _ in range(3):
        for n in ast.walk(fn.node):
            if isinstance(n, ast.Assign) and len(n.targets) == 1 and isinstance(n.targets[0], ast.Name):
                if any(isinstance(x, ast.Name) and x.id in aliases for x in ast.walk(n.value)) and not _under_even(n.value, aliases):
                    aliases.add(n.targets[0].id)
    odd_uses = 0
    # 'angle = abs(angle)' (the parameter re-bound to an even function of itself): every later use has lost the sign
    kill_line = None
    for n in ast.walk(fn.node):
        if isinstance(n, ast.Assign) and any(isinstance(t, ast.Name) and t.id == "angle" for t in n.targets) and _under_even(n.value, {"angle"}):
            kill_line = n.lineno if kill_line is None else min(kill_line, n.lineno)
    for n in ast.walk(fn.node):
        if isinstance(n, ast.Name) and n.id == "angle" and isinstance(n.ctx, ast.Load):
            # skip the validation guard: an `if` whose body only raises
            p = n
            in_guard = False
            even = False
            while p is not None and p is not fn.node:
                q = parent(p)
                if isinstance(q, ast.If) and p is q.test and all(isinstance(s_, ast.Raise) for s_ in q.body):
                    in_guard = True
                if isinstance(q, (ast.Raise, ast.Assert)):
                    in_guard = True  # diagnostics only
                if isinstance(q, ast.Call) and p in q.args and (attr_chain(q.func) or "").split(".")[-1] in EVEN:
                    even = True
                if isinstance(q, ast.BinOp) and isinstance(q.op, ast.Pow) and p is q.left and isinstance(q.right, ast.Constant) and q.right.value in (2, 4):
                    even = True
                p = q
            if in_guard:
                continue
            if kill_line is not None and n.lineno > kill_line:
                even = True
            uses.append((n, even))
            if not even:
                odd_uses += 1
    r.require(bool(uses), "arc_from_theta does not use its angle outside the range check")
    r.check(
        odd_uses > 0,
        fn,
        f"{odd_uses} use(s) of `angle` keep its sign",
        f"every use of `angle` in arc_from_theta is under an even function ({', '.join(sorted({ast.unparse(parent(u[0]))[:40] for u in uses}))}): the result cannot depend on the sign of the sector "
        "angle, so an arc given with a negative angle (a clockwise revolve) gets its centre on the wrong side of the chord",
        uses[0][0],
        key="angle-sign",
    )
    return r


def _under_even(expr: ast.expr, names) -> bool:
    for c in ast.walk(expr):
        if isinstance(c, ast.Call) and (attr_chain(c.func) or "").split(".")[-1] in EVEN and any(isinstance(x, ast.Name) and x.id in names for a in c.args for x in ast.walk(a)):
            return True
    return False


sign_flows.rule_id = "C08.SIGN-FLOWS"

def circumcentre(repo: Repo) -> RuleRun:
    """'the classic three-point arc length equals that of the circle THROUGH THE THREE POINTS': the centre arc_length_3point
    constructs is equidistant from its three arguments. The statements that build `centre` are followed in a rational-function
    domain (vectors of polynomials in the nine coordinates); with c = centre - p_start, a = p_btw - p_start, b = p_end - p_start
    the identities 2 c.a = a.a and 2 c.b = b.b are checked exactly. A wrong coefficient is invisible when the given point is
    the arc's mid point - all that tests and the library's own arcs use."""
    from ..poly import Rat, Vec, eval_alg, sym_vec

    r = RuleRun(PROP, "C08.CIRCUMCENTRE", floor=2, what="the centre built by arc_length_3point is equidistant from p_start, p_btw and p_end (exact identity in a rational-function domain)")
    fn = repo.func("util.functions.arc_length_3point")
    r.require(len(fn.params) == 3, "arc_length_3point no longer takes three points")
    s_, a_, b_ = sym_vec("s"), sym_vec("a"), sym_vec("b")
    env = {fn.params[0]: s_, fn.params[1]: s_ + a_, fn.params[2]: s_ + b_}
    centre_name = None
    for st in fn.node.body:
        if isinstance(st, ast.Assign) and len(st.targets) == 1 and isinstance(st.targets[0], ast.Name):
            try:
                env[st.targets[0].id] = eval_alg(st.value, env)
            except AnalysisError:
                env.pop(st.targets[0].id, None)
                continue
            if "cent" in st.targets[0].id.lower() and isinstance(env[st.targets[0].id], Vec):
                centre_name = st.targets[0].id
    # the centre is whatever the radius vectors are measured from: rad = p - centre
    if centre_name is None:
        for st in fn.node.body:
            if isinstance(st, ast.Assign) and isinstance(st.value, ast.BinOp) and isinstance(st.value.op, ast.Sub) and isinstance(st.value.left, ast.Name) and st.value.left.id == fn.params[0] and isinstance(st.value.right, ast.Name) and isinstance(env.get(st.value.right.id), Vec):
                centre_name = st.value.right.id
    r.require(centre_name is not None, "arc_length_3point: the statement that builds the arc's centre is not recognised (vector algebra over the three points)")
    c = env[centre_name] - s_
    for label, v in (("p_btw", a_), ("p_end", b_)):
        lhs = c.dot(v) * Rat(__import__("sa.poly", fromlist=["Poly"]).Poly.const(2)) - v.dot(v)
        r.check(
            lhs.is_zero(),
            fn,
            f"|centre - p_start| = |centre - {label}| (identity)",
            f"arc_length_3point: the point it constructs as the arc's centre ('{centre_name}') is NOT equidistant from p_start and {label} for general points - it is the circumcentre only in special "
            "positions (e.g. when the given point is exactly the arc's mid point), so radius and length are wrong for every other three-point arc",
            fn.node,
            key=f"equidistant:{label}",
        )
    return r


circumcentre.rule_id = "C08.CIRCUMCENTRE"

def reflex_decision(repo: Repo) -> RuleRun:
    """'...the circle through the three points ON THE SIDE OF THE GIVEN POINT': arc_length_3point computes the included angle
    from the end points alone (arccos: the minor angle) and then decides whether the arc is the reflex one. That decision is a sign
    test on products of the radius vectors; it is followed here in exact rational arithmetic (sa/poly.py) for three points with
    rational coordinates on a circle in general position: the arc start -> given point -> end of sweep alpha, the given point at
    theta along it. The minor angle must be replaced by 2*pi - angle exactly when alpha > pi - wherever the given point lies
    on the arc (a test that looks at only one of the two turns start->given, given->end is right for half the positions)."""
    import math
    from fractions import Fraction

    from ..poly import Poly, Rat, Vec, eval_alg

    r = RuleRun(PROP, "C08.REFLEX-DECISION", floor=40, what="arc_length_3point takes the reflex angle exactly when the arc through the given point sweeps more than pi: sign tests evaluated exactly on rational circle points, given point anywhere along the arc, both senses of rotation")
    r.exhaustive = True
    fn = repo.func("util.functions.arc_length_3point")
    r.require(len(fn.params) == 3, "arc_length_3point no longer takes three points")
    flips = [st for st in fn.node.body if isinstance(st, ast.If) and not any(isinstance(x, ast.Raise) for x in ast.walk(st))]
    r.require(len(flips) == 1 and not flips[0].orelse, "arc_length_3point: the one 'if <reflex>: angle = 2*pi - angle' statement is not recognised")
    flip = flips[0]

    def const(x) -> Rat:
        return Rat(Poly.const(Fraction(x)))

    # a rational rotation (from the unit quaternion (1,2,3,4)/sqrt(30) -> matrix entries over 30), radius 3/7, centre (2, -5/3, 1/9)
    ROT = [[Fraction(-20, 30), Fraction(4, 30), Fraction(22, 30)], [Fraction(20, 30), Fraction(-10, 30), Fraction(20, 30)], [Fraction(10, 30), Fraction(28, 30), Fraction(4, 30)]]
    CEN = [Fraction(2), Fraction(-5, 3), Fraction(1, 9)]
    RAD = Fraction(3, 7)

    def point(t: Fraction, sense: int) -> Vec:
        x, y = (1 - t * t) / (1 + t * t), sense * 2 * t / (1 + t * t)
        return Vec(const(CEN[i] + RAD * (ROT[i][0] * x + ROT[i][1] * y)) for i in range(3))

    def angle_of(t: Fraction) -> float:
        return math.degrees(2 * math.atan(float(t))) % 360

    TS = [Fraction(1, 3), Fraction(1, 2), Fraction(1), Fraction(2), Fraction(3), Fraction(5), Fraction(-5), Fraction(-3), Fraction(-2), Fraction(-1), Fraction(-1, 2), Fraction(-1, 3)]

    def truth(test: ast.expr, env) -> bool:
        if isinstance(test, ast.BoolOp):
            vals = [truth(v, env) for v in test.values]
            return all(vals) if isinstance(test.op, ast.And) else any(vals)
        if isinstance(test, ast.UnaryOp) and isinstance(test.op, ast.Not):
            return not truth(test.operand, env)
        if isinstance(test, ast.Compare) and len(test.ops) == 1:
            a, b = eval_alg(test.left, env), eval_alg(test.comparators[0], env)
            if isinstance(a, Rat) and isinstance(b, Rat):
                d = a - b
                if d.num.is_const() and d.den.is_const() and d.den.terms:
                    v = (d.num.terms.get((), Fraction(0))) / d.den.terms[()]
                    op = test.ops[0]
                    if isinstance(op, ast.Lt):
                        return v < 0
                    if isinstance(op, ast.LtE):
                        return v <= 0
                    if isinstance(op, ast.Gt):
                        return v > 0
                    if isinstance(op, ast.GtE):
                        return v >= 0
        raise AnalysisError(f"arc_length_3point: the reflex test '{ast.unparse(test)[:80]}' is not a sign test over vector algebra")

    wrong = {}
    n = 0
    for sense in (1, -1):
        for te in TS:
            alpha = angle_of(te)
            for tb in TS:
                theta = angle_of(tb)
                if not theta < alpha - 1:
                    continue
                env = {fn.params[0]: point(Fraction(0), sense), fn.params[1]: point(tb, sense), fn.params[2]: point(te, sense)}
                for st in fn.node.body:
                    if st is flip:
                        break
                    if isinstance(st, ast.Assign) and len(st.targets) == 1 and isinstance(st.targets[0], ast.Name):
                        try:
                            env[st.targets[0].id] = eval_alg(st.value, env)
                        except AnalysisError:
                            env.pop(st.targets[0].id, None)
                got = truth(flip.test, env)
                n += 1
                want = alpha > 180
                label = f"sweep {alpha:.0f} deg ({'reflex' if want else 'minor'}), given point at {theta:.0f} deg, {'counter-' if sense > 0 else ''}clockwise"
                if got != want:
                    wrong[label] = got
                else:
                    r.ok(fn, f"{label}: {'reflex angle' if got else 'minor angle'}", key=f"arc:{sense}:{alpha:.0f}:{theta:.0f}")
    if wrong:
        shown = sorted(wrong.items())
        r.bad(
            fn,
            f"arc_length_3point: the decision '{ast.unparse(flip.test)[:100]}' is wrong for {len(wrong)} of {n} arcs, e.g. "
            + "; ".join(f"{label} -> {'reflex' if got else 'minor'} angle" for label, got in (shown[0], shown[len(shown) // 2], shown[-1]))
            + ": the length returned is that of the arc on the OTHER side of the chord, not of the circle through the three points on the side of the given point",
            flip,
            key="reflex-decision",
        )
    r.require(n >= 40, f"only {n} arcs examined")
    return r


reflex_decision.rule_id = "C08.REFLEX-DECISION"


def reflex_midpoint(repo: Repo) -> RuleRun:
    """'...written as the three-point arc whose middle point lies on the circle the specification describes, half-way between
    the end points ON THE INTENDED SIDE' for sector angles in (0, 2*pi) of either sign: arc_from_theta (and whatever it calls:
    arc_mid, divide_arc, unit_vector) is evaluated by the abstract evaluator over EXACT rational vectors - end points on a
    rationally rotated circle whose half-angle tangent t comes from a Pythagorean triple, so every norm on the way is rational -
    for the minor and the reflex sector, both senses. The returned point must be the exact half-way point of the sector."""
    import math
    from fractions import Fraction

    from ..peval import NotEvaluable, Raised
    from ..poly import Poly, Rat, Vec, const_value

    r = RuleRun(PROP, "C08.REFLEX-MIDPOINT", floor=20, what="arc_from_theta returns the exact half-way point of the sector for minor and reflex angles of either sign (abstract evaluation over rational vectors, Pythagorean half-angles)")
    r.exhaustive = True
    fn = repo.func("items.edges.arcs.angle.arc_from_theta")
    r.require(len(fn.params) == 4, "arc_from_theta no longer takes (point_1, point_2, angle, axis)")

    def c(x) -> Rat:
        return Rat(Poly.const(Fraction(x)))

    def rsqrt(x: Rat) -> Rat:
        v = const_value(x)
        if v is None or v < 0:
            raise NotEvaluable("norm of a non-constant vector")
        num, den = math.isqrt(v.numerator), math.isqrt(v.denominator)
        if num * num != v.numerator or den * den != v.denominator:
            raise NotEvaluable(f"norm {v} is not a rational square (model not closed under this computation)")
        return c(Fraction(num, den))

    def coerce(x):
        if isinstance(x, bool):
            return None
        if isinstance(x, (int, Fraction)):
            return c(x)
        return x if isinstance(x, (Rat, Vec)) else None

    class Inf(Rat):
        """tan(pi / 2) in exact arithmetic: only ever divided by (x / Inf = 0)"""

    INF = Inf(Poly.const(1))

    def binop(op, a, b):
        if not (isinstance(a, (Rat, Vec)) or isinstance(b, (Rat, Vec))):
            return NO_MATCH
        if isinstance(b, Inf):
            if isinstance(op, ast.Div):
                a0 = coerce(a)
                if isinstance(a0, Vec):
                    return a0.scale(c(0))
                if isinstance(a0, Rat) and not isinstance(a0, Inf):
                    return c(0)
            raise NotEvaluable("tan(pi/2) used otherwise than as a divisor")
        if isinstance(a, Inf):
            raise NotEvaluable("tan(pi/2) used otherwise than as a divisor")
        a, b = coerce(a), coerce(b)
        if a is None or b is None:
            raise NotEvaluable("exact and floating-point quantities mixed")
        if isinstance(op, ast.Add) and type(a) is type(b):
            return a + b
        if isinstance(op, ast.Sub) and type(a) is type(b):
            return a - b
        if isinstance(op, ast.Mult):
            if isinstance(a, Rat) and isinstance(b, Rat):
                return a * b
            if isinstance(a, Rat) and isinstance(b, Vec):
                return b.scale(a)
            if isinstance(a, Vec) and isinstance(b, Rat):
                return a.scale(b)
        if isinstance(op, ast.Div) and isinstance(b, Rat):
            return a / b if isinstance(a, Rat) else a.scale(c(1) / b)
        raise NotEvaluable(f"operator {type(op).__name__} on exact quantities")

    ROT = [[Fraction(-2, 3), Fraction(2, 15), Fraction(11, 15)], [Fraction(2, 3), Fraction(-1, 3), Fraction(2, 3)], [Fraction(1, 3), Fraction(14, 15), Fraction(2, 15)]]
    e1, e2, ax = (Vec(c(ROT[i][k]) for i in range(3)) for k in range(3))
    centre = Vec((c(2), c(Fraction(-5, 3)), c(Fraction(1, 9))))
    n = 0
    wrong: List[str] = []
    for t in (Fraction(3, 4), Fraction(4, 3), Fraction(5, 12), Fraction(12, 5), Fraction(8, 15), Fraction(15, 8), None):
        if t is None:
            # half a turn: the centre is the middle of the chord, tan(angle / 2) is infinite (1.6e16 in floating point). In exact
            # arithmetic 1 / tan = 0; a construction that then normalises a vector which is exactly zero (0 / 0) returns NaN or
            # rounding noise for every sector of (nearly) half a turn - a Revolve by pi
            cos_h, sin_h, cos_a, sin_a, alpha = Fraction(0), Fraction(1), Fraction(-1), Fraction(0), math.pi
            scenarios = (("half turn, counter-clockwise", math.pi, 1, (Fraction(0), Fraction(1))), ("half turn, clockwise", -math.pi, 1, (Fraction(0), Fraction(-1))))
        else:
            hyp = Fraction(math.isqrt((t.numerator**2 + t.denominator**2)), t.denominator)  # sqrt(1 + t^2)
            cos_h, sin_h = 1 / hyp, t / hyp
            cos_a, sin_a = (1 - t * t) / (1 + t * t), 2 * t / (1 + t * t)
            alpha = 2 * math.atan(float(t))
            scenarios = (
                ("minor, counter-clockwise", alpha, 1, (cos_h, sin_h)),
                ("minor, clockwise", -alpha, -1, (cos_h, -sin_h)),
                ("reflex, clockwise", alpha - 2 * math.pi, 1, (-cos_h, -sin_h)),
                ("reflex, counter-clockwise", 2 * math.pi - alpha, -1, (-cos_h, sin_h)),
            )
        for radius in (Fraction(3, 7), Fraction(25)):
            p1 = centre + e1.scale(c(radius))
            for label, angle, end_sign, half in scenarios:
                p2 = centre + e1.scale(c(radius * cos_a)) + e2.scale(c(radius * sin_a * end_sign))
                want = centre + e1.scale(c(radius * half[0])) + e2.scale(c(radius * half[1]))
                if t is None:
                    exact_tan = "inf"
                else:
                    exact_tan = t if math.tan(angle / 2) > 0 else -t
                    if abs(float(exact_tan) - math.tan(angle / 2)) > 1e-9:
                        raise AnalysisError("internal: half-angle tangent of the scenario is inconsistent")

                def hook(ev, call: ast.Call, name, exact_tan=exact_tan):
                    nm = (name or "").split(".")[-1]
                    args = None
                    if nm in ("asarray", "array", "asanyarray") and call.args:
                        return ev.eval(call.args[0])
                    if nm == "norm" and call.args:
                        v = ev.eval(call.args[0])
                        if isinstance(v, Vec):
                            return rsqrt(v.dot(v))
                        if isinstance(v, Rat):
                            return v if (const_value(v) or 0) >= 0 else c(0) - v
                    if nm in ("cross", "dot") and len(call.args) == 2:
                        a, b = ev.eval(call.args[0]), ev.eval(call.args[1])
                        if isinstance(a, Vec) and isinstance(b, Vec):
                            return a.cross(b) if nm == "cross" else a.dot(b)
                    if nm == "tan" and call.args:
                        v = ev.eval(call.args[0])
                        if exact_tan == "inf":
                            if isinstance(v, float) and abs(abs(v) - math.pi / 2) < 1e-12:
                                return INF
                            raise NotEvaluable("tan of something else than the half sector angle")
                        if isinstance(v, float):
                            # tan of +-(half the sector angle) (+ k*pi) and of its complement are exact rationals of the model as well
                            for cand in (exact_tan, -exact_tan, 1 / exact_tan, -1 / exact_tan):
                                if abs(math.tan(v) - float(cand)) < 1e-9 * max(1.0, abs(float(cand))):
                                    return c(cand)
                        raise NotEvaluable("tan of something else than the half sector angle")
                    if nm == "linspace" and len(call.args) >= 2:
                        a, b = ev.eval(call.args[0]), ev.eval(call.args[1])
                        num = None
                        for kw in call.keywords:
                            if kw.arg == "num":
                                num = ev.eval(kw.value)
                        if num is None and len(call.args) > 2:
                            num = ev.eval(call.args[2])
                        if isinstance(a, Vec) and isinstance(b, Vec) and isinstance(num, int) and num >= 2:
                            return [a + (b - a).scale(c(Fraction(i, num - 1))) for i in range(num)]
                    if nm == "abs" and call.args:
                        v = ev.eval(call.args[0])
                        if isinstance(v, float):
                            return abs(v)
                    if nm == "sign" and len(call.args) == 1:
                        v = ev.eval(call.args[0])
                        if isinstance(v, (int, float)) and not isinstance(v, bool):
                            return c(1 if v > 0 else (-1 if v < 0 else 0))
                        if isinstance(v, Rat) and const_value(v) is not None:
                            x = const_value(v)
                            return c(1 if x > 0 else (-1 if x < 0 else 0))
                    return NO_MATCH

                ev = Evaluator(repo=repo, module=fn.module, call_hook=hook, bind={"np.pi": math.pi, "numpy.pi": math.pi, "math.pi": math.pi})
                ev.binop_hook = binop
                ev.extra_types = (Rat, Vec, Fraction)
                ev.float_arith = True
                key = f"t={t}:r={radius}:{label}"
                n += 1
                try:
                    got = ev.call_funcinfo(fn, [p1, p2, angle, ax])
                except Raised as err:
                    r.bad(fn, f"arc_from_theta raises {err.exc_name} for a {label} sector of {math.degrees(angle):.1f} deg", fn.node, key=key)
                    continue
                except NotEvaluable as err:
                    raise AnalysisError(f"arc_from_theta not evaluable over exact rational vectors ({label}, t={t}): {err}") from err
                except AnalysisError as err:
                    if t is None and "division by zero" in str(err):
                        r.bad(
                            fn,
                            f"arc_from_theta, {label}, radius {radius}: at half a turn the construction divides by a quantity that is exactly zero (it normalises the vector from the centre to a point "
                            "that coincides with the centre): in floating point the result is NaN or rounding noise - Vertex([0.3,0,0]) to Vertex([0,0.3,0]) with Angle(pi, [0,0,1]) gives (nan nan nan) "
                            "and Revolve(face, pi, ...) cannot be assembled",
                            fn.node,
                            key=key,
                        )
                        continue
                    raise
                ok = isinstance(got, Vec) and all((a - b).is_zero() for a, b in zip(got.c, want.c))
                where = ""
                if isinstance(got, Vec) and not ok:
                    d = [const_value(a - b) for a, b in zip(got.c, want.c)]
                    off = math.sqrt(sum(float(x) ** 2 for x in d if x is not None))
                    where = f": the point returned is {off / float(radius):.3f} radii away from the half-way point of the sector"
                if ok:
                    r.ok(fn, f"sector {math.degrees(angle):.1f} deg ({label}), radius {radius}: exact half-way point", key=key)
                else:
                    wrong.append(f"sector angle {math.degrees(angle):.1f} deg ({label}), radius {radius}{where}")
    if wrong:
        r.bad(
            fn,
            f"arc_from_theta does not return the half-way point of the sector for {len(wrong)} of {n} exactly evaluated sectors, e.g. {wrong[0]}; {wrong[-1]} - for a sector of more than half a turn "
            "that is the middle of the COMPLEMENTARY arc: the edge is written on the other side of its centre and its length is radius * (2*pi - angle)",
            fn.node,
            key="half-way-point",
        )
    r.require(n >= 20, f"only {n} sectors examined")
    return r


reflex_midpoint.rule_id = "C08.REFLEX-MIDPOINT"


def adjust_only_when_needed(repo: Repo) -> RuleRun:
    """'An arc given by origin (with flatness 1 and an equidistant origin) ... lies on the circle the specification describes':
    arc_from_origin moves the given centre only when the origin is NOT equidistant from the end points or a flatness other than 1
    is asked for. Abstract run on a toy model in which the three lengths |p1-c|, |p3-c|, |p3-p1| are chosen by the rule (floats
    on this model only) and everything else is symbolic; observed: whether the routine re-enters itself with an adjusted centre."""
    from ..peval import NotEvaluable, Raised

    r = RuleRun(PROP, "C08.ADJUST-ONLY-WHEN-NEEDED", floor=5, what="arc_from_origin adjusts the centre iff the origin is not equidistant or flatness != 1 (toy model with chosen lengths)")
    fn = repo.func("items.edges.arcs.origin.arc_from_origin")
    cases = [
        ("equidistant origin, flatness 1, quarter circle", 1.0, 1.0, 1.4142, 1.0, True, False),
        ("equidistant origin, flatness 1, 178 degree arc", 1.0, 1.0, 1.9997, 1.0, True, False),
        ("origin 1.0 / 1.5 away from the ends, flatness 1", 1.0, 1.5, 1.2, 1.0, True, True),
        ("equidistant origin, flatness 2", 1.0, 1.0, 1.2, 2.0, True, True),
        ("origin not equidistant but adjustment switched off", 1.0, 1.5, 1.2, 1.0, False, False),
    ]
    for label, mag1, mag3, chord, flat, adjust, want in cases:
        reentry = []
        lengths = {"P1-C": mag1, "P3-C": mag3, "P3-P1": chord}

        def hook(ev, call: ast.Call, name, reentry=reentry, lengths=lengths):
            last = (name or "").split(".")[-1]
            if last == "arc_from_origin":
                reentry.append([ev.eval(a) for a in call.args])
                return Sym("adjusted-arc")
            if last == "norm" and call.args:
                v = ev.eval(call.args[0])
                if isinstance(v, Sym) and v.name in lengths:
                    return lengths[v.name]
                raise NotEvaluable(f"norm of {v!r} in the toy model")
            if last in ("cross", "unit_vector", "arc_mid"):
                return Sym(last)
            return NO_MATCH

        def binop(op, a, b):
            num = lambda x: isinstance(x, (int, float)) and not isinstance(x, bool)  # noqa: E731
            if num(a) and num(b):
                if isinstance(op, ast.Pow):
                    return float(a) ** float(b) if a >= 0 else NO_MATCH
                return NO_MATCH
            if isinstance(a, Sym) and isinstance(b, Sym) and isinstance(op, ast.Sub):
                return Sym(f"{a.name}-{b.name}")
            if isinstance(a, Sym) or isinstance(b, Sym):
                return Sym("geom")
            return NO_MATCH

        ev = Evaluator(repo=repo, module=fn.module, call_hook=hook)
        ev.float_arith = True
        ev.binop_hook = binop
        try:
            ev.call_funcinfo(fn, [Sym("P1"), Sym("P3"), Sym("C"), adjust, flat])
        except Raised as err:
            raise AnalysisError(f"arc_from_origin raised {err.exc_name} on the toy model ({label})") from err
        except NotEvaluable as err:
            raise AnalysisError(f"arc_from_origin not evaluable on the toy model ({label}): {err}") from err
        got = bool(reentry)
        r.check(
            got == want,
            fn,
            f"{label}: centre {'adjusted' if got else 'kept'}",
            f"arc_from_origin, {label} (|p1-c|={mag1}, |p3-c|={mag3}, chord={chord}, flatness={flat}, adjust_center={adjust}): the centre is {'ADJUSTED' if got else 'kept'}, expected "
            f"{'adjusted' if want else 'kept'} - {'an arc whose origin is already equidistant and whose flatness is 1 must stay on the circle the user described' if not want else 'the documented adjustment does not happen'}",
            fn.node,
            key=f"adjust:{label}",
        )
    return r


adjust_only_when_needed.rule_id = "C08.ADJUST-ONLY-WHEN-NEEDED"

def validity_tolerance(repo: Repo, prop: str = PROP, rule: str = "C08.VALIDITY-TOLERANCE") -> RuleRun:
    from .. import tolerance

    r = RuleRun(prop, rule, floor=2, what="the tests that decide whether an edge is written at all (Edge.is_valid: coincident ends; ArcEdgeBase.is_valid: collinear third point) are absolute, of a non-negative magnitude, against the library tolerance - not a squared length against the plain tolerance, not a signed quantity, not a relative band")
    r.exhaustive = True
    tolerance.check_functions(r, repo, ["items.edges.edge.Edge.is_valid", "items.edges.arcs.arc_base.ArcEdgeBase.is_valid"], scan_modules=("items.edges.arcs.arc_base", "items.edges.arcs.angle", "items.edges.arcs.origin", "items.edges.arcs.arc"))
    return r


validity_tolerance.rule_id = "C08.VALIDITY-TOLERANCE"

def no_memo(repo: Repo) -> RuleRun:
    """'the arc written is the arc of the vertices as they stand': the converted arc point is recomputed, not memoised. Same rule as C16.NO-MEMO."""
    from ..report import rebrand
    from . import c16

    return rebrand(c16.no_memo(repo), PROP, "C08.NO-MEMO")


no_memo.rule_id = "C08.NO-MEMO"

def edge_ends(repo: Repo) -> RuleRun:
    """'...the three-point arc ... on the intended side': an angle-and-axis arc is directed from the first to the second vertex it was given with; EdgeList keeps that order for every new edge. Same rule as C07.DEDUP."""
    from ..report import rebrand
    from . import c07

    return rebrand(c07.dedup(repo), PROP, "C08.EDGE-ENDS")


edge_ends.rule_id = "C08.EDGE-ENDS"


def arguments_untouched(repo: Repo) -> RuleRun:
    """'the arc the specification describes' - every time it is asked for: converting an Angle edge does not modify the stored axis / angle it was handed. Same rule as C09.ARGUMENTS-UNTOUCHED."""
    from ..alias import argument_mutation_rule

    return argument_mutation_rule(repo, PROP, "C08.ARGUMENTS-UNTOUCHED")


arguments_untouched.rule_id = "C08.ARGUMENTS-UNTOUCHED"

def collinearity_scale_free(repo: Repo, prop: str = PROP, rule: str = "C08.COLLINEARITY-SCALE-FREE") -> RuleRun:
    """'... for radii over three decades': whether an arc is written at all must not depend on the size of the model."""
    from ..dims import scale_free_comparison_rule

    return scale_free_comparison_rule(repo, prop, rule, ["items.edges.arcs.arc_base.ArcEdgeBase.is_valid", "util.functions.arc_length_3point"], floor=2)


collinearity_scale_free.rule_id = "C08.COLLINEARITY-SCALE-FREE"


def beam_list(repo: Repo) -> RuleRun:
    """'every arc ... is written': one specification object given to two edges of an operation yields two edges. Same rule as C07.BEAM-LIST."""
    from ..report import rebrand
    from . import c07

    return rebrand(c07.beam_list(repo), PROP, "C08.BEAM-LIST")


beam_list.rule_id = "C08.BEAM-LIST"


def none_tests(repo: Repo) -> RuleRun:
    """'the length of a curve edge is not below its chord': an optional parameter of 0 is a parameter, not a missing one. Same rule as C16.NONE-TESTS."""
    from ..report import rebrand
    from . import c16

    return rebrand(c16.none_tests(repo), PROP, "C08.NONE-TESTS")


none_tests.rule_id = "C08.NONE-TESTS"



def angle_axis_exact(repo: Repo) -> RuleRun:
    """'an arc given by angle and axis passes through the point the solver computes from that data' - also after the edge was mirrored in a plane whose normal is not of unit length, or scaled by a negative ratio. Same rule as C09.ANGLE-AXIS-EXACT."""
    from . import c09

    return c09.angle_axis_exact(repo, PROP, "C08.ANGLE-AXIS-EXACT")


angle_axis_exact.rule_id = "C08.ANGLE-AXIS-EXACT"


def no_shared_parts(repo: Repo) -> RuleRun:
    """'an arc given by angle and axis ...': every side edge of a revolved operation owns its angle-and-axis data - one object in four slots is rotated, mirrored and reversed four times. Same rule as C09.NO-SHARED-PARTS."""
    from ..report import rebrand
    from . import c09

    return rebrand(c09.no_shared_parts(repo), PROP, "C08.NO-SHARED-PARTS")


no_shared_parts.rule_id = "C08.NO-SHARED-PARTS"


def end_pairing(repo: Repo) -> RuleRun:
    """'the length of a curve edge is not below its chord': the points a curve hands out for a range start at the first and end at the last parameter, in either direction (a backwards range down to index 0 must not come out empty). Same rule as C16.END-PAIRING."""
    from ..report import rebrand
    from . import c16

    return rebrand(c16.end_pairing(repo), PROP, "C08.END-PAIRING")


end_pairing.rule_id = "C08.END-PAIRING"


RULES = [trig_domain, arg_pairing, affine_kinds, sign_flows, circumcentre, reflex_decision, reflex_midpoint, adjust_only_when_needed, validity_tolerance, no_memo, edge_ends, arguments_untouched, collinearity_scale_free, beam_list, none_tests, angle_axis_exact, no_shared_parts, end_pairing]

"""C17 - clamps stay on their manifold and links keep their relation."""

from __future__ import annotations

import ast
from typing import Any, Dict, List, Optional, Set

from ..cfg import CFG
from ..effects import Effects
from ..model import AnalysisError, ClassInfo, FuncInfo, Repo, TypeEnv, attr_chain, parent, st_cls, walk_shallow
from ..peval import NO_MATCH, Evaluator, NotEvaluable, Obj, Raised, Sym
from ..report import RuleRun
from ..util import node_calls
from .c10 import _run

PROP = "C17"
TITLE = "Clamps stay on their manifold and links keep their relation"
DECIDES = (
    "no method of a link (constructor, transform, update) mutates the leader it holds, directly or through a callee "
    "(C17.PURITY, interprocedural effect analysis); a clamp's position is written only by its constructor and update_params, the "
    "constructor finishes through update_params, and update_params sets position = function(params) for the params it was given, so "
    "the reported position is always a value of the constraint function (C17.POSITION-WRITERS); evaluated over linear forms, "
    "TranslationLink.transform returns the constructor's follower for the constructor's leader and leader' + (follower - leader) "
    "after a move; RotationLink turns the ORIGINAL follower, SymmetryLink mirrors the current leader with its own normal and origin; "
    "LinkBase.update stores the transform result as follower and nothing else (C17.LINK-ALGEBRA)."
    ' mirror_matrix is a reflection (C17.MIRROR-MATRIX = C09.MIRROR-MATRIX); angle_between clips its cosine on both sides (C17.TRIG-DOMAIN); no constructor parameter of clamps/links/point helpers is overwritten before it is read (C17.PARAMS-USED); vector-annotated parameters receive vectors, norm() is taken of vectors (C17.AFFINE-KINDS).'
    " RotationLink.transform turns the ORIGINAL follower by the measured angle also for a half turn (abstract run, part of C17.LINK-ALGEBRA); constructors keep private copies (C17.OWNS-GEOMETRY); angles are dimensionless (C17.ANGLE-DIMENSION); the coarse closest-parameter search covers the curve's own range (C17.CLOSEST-SEARCH)."
    ' What GridBase.update writes and returns (C17.WHO-WRITES-POINTS); arrays stored into in place are float arrays (C17.FLOAT-STORES).'
    ' SymmetryLink places the follower at the exact mirror image for leaders on either side of the plane (C17.SYMMETRY-EXACT); angle_between returns the angle in [0, pi] for acute, right, obtuse and opposite pairs (C17.ANGLE-BETWEEN) - both by exact rational evaluation.'
)
NOT_DECIDED = "closest-point initialisation, circle radius/height, rotation angles (numerics)."
ASSUMPTIONS = []


def purity(repo: Repo) -> RuleRun:
    r = RuleRun(PROP, "C17.PURITY", floor=8, what="link methods do not mutate self.leader")
    eff = Effects(repo)
    base = repo.cls("optimize.links.LinkBase")
    for cls in [base, *sorted(repo.subclasses(base), key=lambda c: c.qualname)]:
        for name, m in sorted(cls.methods.items()):
            ms = eff.mutated_self_attrs(m)
            bad = {x for x in ms if x in ("self.leader",)}
            node = eff.witness.get((m.qualname, "self.leader"))
            if bad:
                r.bad(m, f"{m.qualname} modifies the leader array in place ({ast.unparse(node)[:70] if node is not None else '?'}): updating a link must not move the point the optimiser holds", node, key="self.leader")
            else:
                r.ok(m, "leader not mutated", key="self.leader")
    # GridBase.update assigns a new leader, then calls update(): it must not alias the grid row it just wrote
    return r


purity.rule_id = "C17.PURITY"


def position_writers(repo: Repo) -> RuleRun:
    r = RuleRun(PROP, "C17.POSITION-WRITERS", floor=5, what="ClampBase.position is only ever a value of the constraint function")
    base = repo.cls("optimize.clamps.clamp.ClampBase")
    # who stores .position of a clamp
    for fn in sorted(repo.all_functions(), key=lambda f: f.qualname):
        env = None
        for n in walk_shallow(fn.node):
            if isinstance(n, (ast.Assign, ast.AugAssign)):
                tgts = n.targets if isinstance(n, ast.Assign) else [n.target]
                for t in tgts:
                    if isinstance(t, ast.Attribute) and t.attr in ("position", "params"):
                        if env is None:
                            env = TypeEnv(repo, fn)
                        bc = st_cls(env.type_of(t.value))
                        if bc is not None and base in repo.mro(bc):
                            ok = fn.cls is not None and base in repo.mro(fn.cls) and fn.name in ("__init__", "update_params")
                            r.check(ok, fn, f"clamp.{t.attr} written in {fn.name}", f"{fn.qualname} writes clamp.{t.attr} directly: the position is no longer guaranteed to be a value of the clamp's function", n, key=f"store:{t.attr}")
    # constructor ends through update_params
    init = repo.func("optimize.clamps.clamp.ClampBase.__init__")
    g = CFG(init.node)
    is_up = lambda n: any(attr_chain(c.func) == "self.update_params" for c in node_calls(n))  # noqa: E731
    ok, path = g.must_pass(g.entry, g.exit_return, is_up)
    r.check(ok, init, "constructor finishes through update_params", "ClampBase.__init__ can finish without update_params: a fresh clamp reports the raw position it was given, not its point on the constraint", init.node, key="init")
    ups = [n for n in g.stmt_nodes() if is_up(n)]
    later = [n for n in g.stmt_nodes() if n.kind == "stmt" and isinstance(n.stmt, ast.Assign) and "self.position" in ast.unparse(n.stmt.targets[0]) and any(n.id in g.reach([u]) for u in ups)]
    r.check(not later, init, "no position store after update_params", "ClampBase.__init__ overwrites the position after update_params", init.node, key="init-after")
    # update_params semantics
    up = repo.func("optimize.clamps.clamp.ClampBase.update_params")

    def hook(ev, call: ast.Call, nm):
        if attr_chain(call.func) == "self.function":
            return ("f", ev.eval(call.args[0]))
        return NO_MATCH

    this = Obj("clamp", cls=base)
    this.set("params", Sym("old"))
    this.set("position", Sym("oldpos"))
    _run(Evaluator(repo=repo, module=up.module, call_hook=hook), up, [this, Sym("P")])
    r.check(this.get("params") == Sym("P") and this.get("position") == ("f", Sym("P")), up, "params := P; position := function(P)", f"update_params(P) leaves params={this.get('params')!r}, position={this.get('position')!r}; expected params=P, position=function(P)", up.node, key="update_params")
    # subclasses do not bypass the base constructor
    for cls in sorted(repo.subclasses(base), key=lambda c: c.qualname):
        m = cls.methods.get("__init__")
        if m is None:
            continue
        calls_super = any(isinstance(c, ast.Call) and isinstance(c.func, ast.Attribute) and c.func.attr == "__init__" and isinstance(c.func.value, ast.Call) and attr_chain(c.func.value.func) == "super" for c in ast.walk(m.node))
        r.check(calls_super, m, "delegates to ClampBase.__init__", f"{cls.name}.__init__ does not call ClampBase.__init__ (position/params never initialised through the function)", m.node, key="super-init")
    # RadialClamp rotates a copy of the initial point
    rc = repo.func("optimize.clamps.curve.RadialClamp.__init__")
    lambdas = [n for n in ast.walk(rc.node) if isinstance(n, ast.Lambda)]
    r.require(len(lambdas) == 1, "RadialClamp: position lambda not found")
    names = {n.id for n in ast.walk(lambdas[0].body) if isinstance(n, ast.Name)}
    copies = {n.targets[0].id for n in walk_shallow(rc.node) if isinstance(n, ast.Assign) and isinstance(n.targets[0], ast.Name) and isinstance(n.value, ast.Call) and attr_chain(n.value.func) in ("np.copy", "np.array", "numpy.copy", "copy.copy")}
    used_points = names & (copies | {"position"})
    r.check(bool(used_points) and used_points <= copies, rc, "rotates a private copy of the initial point", f"RadialClamp's position function rotates {sorted(used_points)}; it must rotate a copy of the initial point ({sorted(copies)}) that later moves cannot alter", lambdas[0], key="radial-copy")
    return r


position_writers.rule_id = "C17.POSITION-WRITERS"


# --------------------------------------------------------------------------------------------
class LinComb:
    def __init__(self, coef: Dict[str, int]):
        self.coef = {k: v for k, v in coef.items() if v != 0}

    def __eq__(self, other):
        return isinstance(other, LinComb) and other.coef == self.coef

    def __hash__(self):
        return hash(tuple(sorted(self.coef.items())))

    def __repr__(self):
        return " ".join(f"{v:+d}{k}" for k, v in sorted(self.coef.items())) or "0"


def lc_binop(op, a, b):
    if isinstance(a, LinComb) and isinstance(b, LinComb):
        keys = set(a.coef) | set(b.coef)
        if isinstance(op, ast.Add):
            return LinComb({k: a.coef.get(k, 0) + b.coef.get(k, 0) for k in keys})
        if isinstance(op, ast.Sub):
            return LinComb({k: a.coef.get(k, 0) - b.coef.get(k, 0) for k in keys})
        raise NotEvaluable("product of points")
    if isinstance(a, LinComb) or isinstance(b, LinComb):
        raise NotEvaluable("mixed arithmetic on points")
    return NO_MATCH


def link_algebra(repo: Repo) -> RuleRun:
    r = RuleRun(PROP, "C17.LINK-ALGEBRA", floor=8, what="link transforms as linear forms / argument-order checks")
    L, F, L2 = LinComb({"L": 1}), LinComb({"F": 1}), LinComb({"L'": 1})

    def np_hook(ev, call: ast.Call, nm):
        if nm in ("np.array", "np.asarray", "np.copy", "numpy.array", "numpy.copy") and call.args:
            return ev.eval(call.args[0])
        return NO_MATCH

    tcls = repo.cls("optimize.links.TranslationLink")
    init = repo.find_method(tcls, "__init__")
    tr = repo.find_method(tcls, "transform")
    upd = repo.find_method(tcls, "update")

    def mk():
        ev = Evaluator(repo=repo, module=tcls.module, call_hook=np_hook)
        ev.binop_hook = lc_binop
        ev.extra_types = (LinComb,)
        return ev

    link = Obj("link", cls=tcls)
    _run(mk(), init, [link, L, F])
    res = _run(mk(), tr, [link])
    r.check(res == F, tr, f"transform() at the constructor's leader = {res}", f"TranslationLink.transform() evaluated right after construction gives {res}; expected the constructor's follower F", tr.node, key="translation:initial")
    link.set("leader", L2)
    res = _run(mk(), tr, [link])
    want = LinComb({"L'": 1, "F": 1, "L": -1})
    r.check(res == want, tr, f"after the leader moved: {res}", f"TranslationLink.transform() after the leader moved to L' gives {res}; expected L' + (F - L)", tr.node, key="translation:moved")
    _run(mk(), upd, [link])
    r.check(link.get("follower") == want and link.get("leader") == L2, upd, "update(): follower := transform(), leader untouched", f"LinkBase.update leaves follower={link.get('follower')!r}, leader={link.get('leader')!r}", upd.node, key="update")

    # RotationLink: turns the ORIGINAL follower about the link's own axis/origin by the angle between the original and the current
    # leader radius, signed by the axis - also when the two radii are parallel or opposite (no turn / half turn: their cross product
    # vanishes). Abstract run of transform(); angle_between / cross / dot / norm are supplied by the scenario.
    rt = repo.func("optimize.links.RotationLink.transform")
    rl = repo.cls("optimize.links.RotationLink")
    for label, dot_sign, cross_norm, want_angle in (
        ("leader turned counter-clockwise", 1, 1000, 5),
        ("leader turned clockwise", -1, 1000, -5),
        ("leader turned by half a turn (radii opposite, cross product zero)", 0, 0, 5),
    ):
        calls = []

        def rhook(ev, call: ast.Call, name, calls=calls, dot_sign=dot_sign, cross_norm=cross_norm):
            last = (name or "").split(".")[-1]
            if last == "_get_radius":
                return Sym(f"radius_of({ev.eval(call.args[0])!r})")
            if last == "angle_between":
                calls.append(("angle_between", [ev.eval(a_) for a_ in call.args]))
                return 5
            if last == "cross":
                return Sym("CROSS")
            if last == "dot":
                return dot_sign
            if last == "norm":
                return cross_norm
            if last == "rotate":
                calls.append(("rotate", [ev.eval(a_) for a_ in call.args]))
                return Sym("ROTATED")
            return NO_MATCH

        link = Obj("link", cls=rl)
        link.set("leader", Sym("LEADER_NOW"))
        link.set("follower", Sym("FOLLOWER_NOW"))
        link.set("orig_leader_radius", Sym("ORIG_RADIUS"))
        link.set("orig_follower_pos", Sym("ORIG_FOLLOWER"))
        link.set("axis", Sym("AXIS"))
        link.set("origin", Sym("ORIGIN"))
        res = _run(Evaluator(repo=repo, module=rt.module, call_hook=rhook), rt, [link])
        rot = [c for c in calls if c[0] == "rotate"]
        ang = [c for c in calls if c[0] == "angle_between"]
        ok = res == Sym("ROTATED") and len(rot) == 1 and rot[0][1] == [Sym("ORIG_FOLLOWER"), want_angle, Sym("AXIS"), Sym("ORIGIN")]
        ok = ok and len(ang) == 1 and sorted(map(repr, ang[0][1])) == sorted(["ORIG_RADIUS", "radius_of(LEADER_NOW)"])
        r.check(
            ok,
            rt,
            f"{label}: rotate(original follower, {want_angle:+d}, own axis, own origin)",
            f"RotationLink.transform, {label}: returns {res!r} after {calls}; expected the ORIGINAL follower turned by the angle between the original and the current leader radius "
            f"({want_angle:+d} in this scenario) about the link's own axis and origin (turning the current follower compounds the rotation; skipping the rotation when the cross product "
            "vanishes loses a half turn)",
            rt.node,
            key=f"rotation:{label.split(' (')[0]}",
        )
    rinit = repo.func("optimize.links.RotationLink.__init__")
    cp = any(isinstance(n, ast.Assign) and ast.unparse(n.targets[0]) == "self.orig_follower_pos" and isinstance(n.value, ast.Call) and attr_chain(n.value.func) in ("np.copy", "np.array", "numpy.copy", "copy.copy", "copy.deepcopy") for n in walk_shallow(rinit.node))
    r.check(cp, rinit, "original follower stored as a copy", "RotationLink stores the original follower without copying it: update() overwrites it through the alias", rinit.node, key="rotation:copy")
    # SymmetryLink: the follower is the mirror image of the CURRENT leader about the link's own plane. Constructor and transform()
    # are run in the linear-form domain of C09 (X = leader, O = origin of the plane, T = the reflection): the result must be
    # T(X - O) + O, and every reflection matrix must be built from a NORMALISED normal - however the link caches or inlines it
    from . import c09

    st = repo.func("optimize.links.SymmetryLink.transform")
    sinit = repo.func("optimize.links.SymmetryLink.__init__")
    matrix_args = []

    def shook(ev, call: ast.Call, name, matrix_args=matrix_args):
        if (name or "").split(".")[-1] == "mirror_matrix" and call.args:
            matrix_args.append(ev.eval(call.args[0]))
        return c09.affine_hook(ev, call, name)

    slink = Obj("link", cls=repo.cls("optimize.links.SymmetryLink"))
    ev_s = Evaluator(repo=repo, module=st.module, call_hook=shook)
    ev_s.binop_hook = c09.lin_binop
    ev_s.extra_types = (c09.Lin,)
    try:
        ev_s.call_funcinfo(sinit, [slink, c09.Lin(0, 0, 1, 0), Sym("zero"), Sym("NORMAL"), c09.Lin(0, 0, 0, 1)])
        slink.set("leader", c09.Lin(0, 0, 1, 0))
        res = ev_s.call_funcinfo(st, [slink])
    except Raised as err:
        raise AnalysisError(f"SymmetryLink raised {err.exc_name} on the linear-form model") from err
    except NotEvaluable as err:
        if "between a point expression and" in str(err) or "applied twice" in str(err):
            # a direction where a point belongs (normal and origin swapped) or the reflection applied twice: positively wrong
            r.bad(st, f"SymmetryLink: {err} - the mirror image is T(X - O) + O with X the leader, O the plane's origin and T built from the normal; the arguments are mixed up", st.node, key="symmetry:transform")
            res = None
        else:
            raise AnalysisError(f"SymmetryLink not evaluable over the linear-form domain: {err}") from err
    if res is not None:
        r.check(res == c09.EXPECTED, st, f"transform() = {res}", f"SymmetryLink.transform computes {res} for leader X and plane origin O; the mirror image about a plane through O is T(X - O) + O (an origin that is not added back, or subtracted twice, shows only for planes that miss the global origin)", st.node, key="symmetry:transform")
    r.check(bool(matrix_args) and all(isinstance(a_, Sym) and a_.name == "unit" for a_ in matrix_args), st, "the reflection is built from a normalised normal", f"SymmetryLink builds its reflection matrix from {matrix_args}: mirror_matrix() is a reflection only for a UNIT normal (f.mirror normalises; a cached or inlined matrix must do so too)", st.node, key="symmetry:unit-normal")
    # GridBase.update sets the leader before updating and reads the follower afterwards (evaluated under C13.WHO-WRITES-POINTS)
    return r


link_algebra.rule_id = "C17.LINK-ALGEBRA"

def affine_kinds(repo: Repo) -> RuleRun:
    """Affine kind check (positions vs vectors) over the whole package: lengths are taken of vectors - differences of
    points, directions - never of positions, whose norm depends on where the global origin is."""
    from ..affine import kinds_rule

    return kinds_rule(repo, PROP, "C17.AFFINE-KINDS", ("",), floor=20)


affine_kinds.rule_id = "C17.AFFINE-KINDS"

def mirror_matrix(repo: Repo) -> RuleRun:
    """SymmetryLink's follower is the leader's mirror image only if functions.mirror_matrix is a reflection: same rule as
    C09.MIRROR-MATRIX."""
    from ..report import rebrand
    from . import c09

    return rebrand(c09.mirror_matrix(repo), PROP, "C17.MIRROR-MATRIX")


mirror_matrix.rule_id = "C17.MIRROR-MATRIX"

def trig_domain(repo: Repo) -> RuleRun:
    """RotationLink measures the leader's turn with functions.angle_between: for an unmoved leader in a general position an unclipped (or one-sidedly clipped) cosine gives NaN and the follower is lost."""
    from ..domain import inverse_trig_rule

    return inverse_trig_rule(repo, PROP, "C17.TRIG-DOMAIN", ('util.functions', 'optimize.'), floor=2)


trig_domain.rule_id = "C17.TRIG-DOMAIN"

def params_used(repo: Repo) -> RuleRun:
    """A clamp lies on the manifold the USER described, a link relates the points the user named: no constructor parameter of
    clamps / links / the point helpers is overwritten before it is read."""
    from ..params import dead_params_rule

    return dead_params_rule(repo, PROP, "C17.PARAMS-USED", ("optimize.clamps", "optimize.links", "util.functions"), floor=20)


params_used.rule_id = "C17.PARAMS-USED"

def owns_geometry(repo: Repo) -> RuleRun:
    """Clamps stay on THEIR manifold: the constructors keep private copies of the coordinates that define it."""
    from ..alias import escaping_view_rule

    return escaping_view_rule(repo, PROP, "C17.OWNS-GEOMETRY", ('optimize.',))


owns_geometry.rule_id = "C17.OWNS-GEOMETRY"

def angle_dimension(repo: Repo) -> RuleRun:
    from ..dims import angle_dimension_rule

    return angle_dimension_rule(repo, PROP, "C17.ANGLE-DIMENSION")


angle_dimension.rule_id = "C17.ANGLE-DIMENSION"

def closest_search(repo: Repo) -> RuleRun:
    """A CurveClamp starts from the curve parameter closest to its vertex: the coarse search covers the curve's own parameter range. Same rule as C16.CLOSEST-SEARCH."""
    from ..report import rebrand
    from . import c16

    return rebrand(c16.closest_param_search(repo), PROP, "C17.CLOSEST-SEARCH")


closest_search.rule_id = "C17.CLOSEST-SEARCH"

def float_stores(repo: Repo) -> RuleRun:
    """'the follower is the image of the leader': the leader the relation is applied to is the position handed in, not its integer part. Arrays stored into in place are float arrays by construction."""
    from ..alias import inplace_dtype_rule

    return inplace_dtype_rule(repo, PROP, "C17.FLOAT-STORES")


float_stores.rule_id = "C17.FLOAT-STORES"

def who_writes_points(repo: Repo) -> RuleRun:
    """'every evaluation of the objective leaves leader and followers in the relation': what GridBase.update writes and returns. Same rule as C13.WHO-WRITES-POINTS."""
    from ..report import rebrand
    from . import c13

    return rebrand(c13.who_writes_points(repo), PROP, "C17.WHO-WRITES-POINTS")


who_writes_points.rule_id = "C17.WHO-WRITES-POINTS"

def symmetry_exact(repo: Repo) -> RuleRun:
    """'the follower of a symmetry link is the mirror image of the leader' - on whichever side of the plane the leader is: SymmetryLink
    (constructor, then a new leader position and transform()) is run by the abstract evaluator over exact rational vectors; the plane's
    normal is a Pythagorean quadruple so every norm on the way is rational. The follower must equal the exact reflection."""
    from fractions import Fraction

    from .. import exact
    from ..peval import NotEvaluable, Obj, Raised

    r = RuleRun(PROP, "C17.SYMMETRY-EXACT", floor=8, what="SymmetryLink places the follower at the exact mirror image of the leader, leader on either side of (and on) the plane, non-unit normals, shifted origins (exact rational evaluation)")
    r.exhaustive = True
    cls = repo.cls("optimize.links.SymmetryLink")
    init = repo.find_method(cls, "__init__")
    upd = repo.find_method(cls, "update")
    r.require(init is not None and upd is not None, "SymmetryLink.__init__ / update vanished")
    n = 0
    for normal in ((2, 3, 6), (1, 4, 8), (-4, 4, 7), (0, 3, 4), (0, 0, 5)):
        nn = sum(x * x for x in normal)
        for origin in ((0, 0, 0), (Fraction(1, 3), -2, Fraction(5, 7))):
            for leader in ((3, -1, 2), (-5, Fraction(1, 2), -4), (Fraction(1, 3), -2, Fraction(5, 7))):
                L, O, N = exact.vec(*leader), exact.vec(*origin), exact.vec(*normal)
                d = sum((Fraction(a) - Fraction(b)) * c_ for a, b, c_ in zip(leader, origin, normal))
                want = exact.vec(*[Fraction(leader[i]) - 2 * d * normal[i] / nn for i in range(3)])
                link = Obj("link", cls=cls)
                ev = exact.evaluator(repo, init.module)
                label = f"normal {normal}, origin {tuple(str(x) for x in origin)}, leader {tuple(str(x) for x in leader)} ({'on the positive side' if d > 0 else 'on the negative side' if d < 0 else 'on the plane'})"
                n += 1
                try:
                    ev.call_funcinfo(init, [link, exact.vec(0, 0, 0), exact.vec(9, 9, 9), N, O])
                    link.set("leader", L)
                    ev.call_funcinfo(upd, [link])
                    got = link.get("follower")
                except Raised as err:
                    r.bad(init, f"SymmetryLink raises {err.exc_name} for {label}", init.node, key=f"sym:{normal}:{origin}:{leader}")
                    continue
                except NotEvaluable as err:
                    raise AnalysisError(f"SymmetryLink not evaluable over exact rational vectors ({label}): {err}") from err
                ok = exact.same(got, want)
                off = "" if ok or not isinstance(got, exact.Vec) else f": the follower is {exact.distance(got, want):.3f} away from the mirror image"
                r.check(ok, repo.find_method(cls, "_get_follower") or init, f"{label}: exact mirror image", f"SymmetryLink, {label}{off} - the follower is not the reflection of the leader in the plane", init.node, key=f"sym:{normal}:{origin}:{leader}")
    r.require(n >= 8, f"only {n} configurations examined")
    return r


symmetry_exact.rule_id = "C17.SYMMETRY-EXACT"

def angle_between_exact(repo: Repo) -> RuleRun:
    """'a rotation link turns the follower by the angle the leader turned' - for turns of any size: functions.angle_between is run over
    exact rational vectors with rational norms (3-4-5 and 5-12-13 triangles) from 0 to pi; its result (the inverse trigonometric
    function is taken in floating point at the very end) must be the angle whose cosine AND sine are those of the pair."""
    import math

    from .. import exact
    from ..peval import NotEvaluable, Raised

    r = RuleRun(PROP, "C17.ANGLE-BETWEEN", floor=8, what="functions.angle_between returns the angle in [0, pi] between two vectors, acute, right, obtuse and opposite pairs alike (exact rational evaluation up to the final inverse trigonometric call)")
    fn = repo.func("util.functions.angle_between")
    pairs = [
        ("parallel", (3, 4, 0), (6, 8, 0)), ("acute 36.9 deg", (1, 0, 0), (4, 3, 0)), ("acute 53.1 deg", (2, 0, 0), (3, 4, 0)), ("right", (0, 0, 7), (3, 4, 0)),
        ("obtuse 126.9 deg", (1, 0, 0), (-3, 4, 0)), ("obtuse 143.1 deg", (0, 5, 0), (3, -4, 0)), ("obtuse 112.6 deg", (0, 0, 2), (12, 0, -5)), ("opposite", (3, 4, 0), (-3, -4, 0)),
        ("obtuse, in general position", (2, 3, 6), (-6, 2, -3)),
    ]
    for label, a, b in pairs:
        na, nb = math.sqrt(sum(x * x for x in a)), math.sqrt(sum(x * x for x in b))
        dot = sum(x * y for x, y in zip(a, b))
        cr = (a[1] * b[2] - a[2] * b[1], a[2] * b[0] - a[0] * b[2], a[0] * b[1] - a[1] * b[0])
        want = math.atan2(math.sqrt(sum(x * x for x in cr)), dot)
        try:
            got = exact.evaluator(repo, fn.module).call_funcinfo(fn, [exact.vec(*a), exact.vec(*b)])
        except Raised as err:
            r.bad(fn, f"angle_between raises {err.exc_name} for a {label} pair {a}, {b}", fn.node, key=f"angle:{label}")
            continue
        except NotEvaluable as err:
            raise AnalysisError(f"angle_between not evaluable over exact rational vectors ({label}): {err}") from err
        if isinstance(got, exact.Rat):
            got = float(exact.value(got))
        ok = isinstance(got, (int, float)) and abs(got - want) < 1e-9
        r.check(ok, fn, f"{label}: {math.degrees(want):.1f} deg", f"angle_between{a, b} ({label}) gives {math.degrees(got) if isinstance(got, (int, float)) else got!r:.6} deg; the angle between the two vectors is {math.degrees(want):.1f} deg - a rotation link (and every other user) turns by the wrong amount", fn.node, key=f"angle:{label}")
    return r


angle_between_exact.rule_id = "C17.ANGLE-BETWEEN"

def match_tolerance(repo: Repo) -> RuleRun:
    """'links or clamps that match no vertex' are refused, those that match are filed under THAT vertex. Same rule as C13.MATCH-TOLERANCE."""
    from . import c13

    return c13.match_tolerance(repo, PROP, "C17.MATCH-TOLERANCE")


match_tolerance.rule_id = "C17.MATCH-TOLERANCE"


def links_accumulate(repo: Repo) -> RuleRun:
    """'After the leader of a link moves, the follower is ...' - every follower of that leader. Same rule as C13.LINKS-ACCUMULATE."""
    from . import c13

    return c13.links_accumulate(repo, PROP, "C17.LINKS-ACCUMULATE")


links_accumulate.rule_id = "C17.LINKS-ACCUMULATE"


def link_chain(repo: Repo) -> RuleRun:
    """'After the leader of a link moves, the follower is ...' - also when that leader is itself the follower of another link. Same rule as C13.LINK-CHAIN."""
    from . import c13

    return c13.link_chain(repo, PROP, "C17.LINK-CHAIN")


link_chain.rule_id = "C17.LINK-CHAIN"


def radial_exact(repo: Repo, prop: str = PROP, rule: str = "C17.RADIAL-EXACT") -> RuleRun:
    """'for any parameter values its position lies on the declared ... circle (same radius and height about the axis)' - for normals
    'in general position (non-unit ...)': RadialClamp is constructed by the abstract evaluator over exact rational vectors (centre,
    a non-unit normal of rational length, a start point at rational distance from the axis) and its position function is then
    called with the parameter of a Pythagorean turn (cos 3/5, sin 4/5) in either sense. The point returned must be the start point
    turned about the axis: same distance from the axis, same height, the expected place. functions.rotate is given its exact
    meaning (Rodrigues' formula about the NORMALISED axis)."""
    from fractions import Fraction

    from .. import exact

    r = RuleRun(prop, rule, floor=6, what="RadialClamp's position function turns the start point about the normalised axis: exact on its circle for non-unit normals, either sense (exact rational evaluation)")
    r.exhaustive = True
    cls = repo.cls("optimize.clamps.curve.RadialClamp")
    init = repo.find_method(cls, "__init__")
    r.require(init is not None, "RadialClamp.__init__ vanished")
    T = Fraction(927295218, 10**9)  # stands for the angle whose cosine is 3/5 and sine 4/5
    C, S = Fraction(3, 5), Fraction(4, 5)

    def trig(x):
        v = exact.value(x) if isinstance(x, exact.Rat) else x
        if v == 0:
            return Fraction(1), Fraction(0)
        if v == T:
            return C, S
        if v == -T:
            return C, -S
        raise NotEvaluable(f"cosine / sine of {v} (the model only knows 0 and +-the Pythagorean angle)")

    def rodrigues(p, angle, axis, origin):
        c_, s_ = trig(angle)
        k = axis.scale(exact.c(1) / exact.rsqrt(axis.dot(axis)))
        v = p - origin
        return origin + v.scale(exact.c(c_)) + k.cross(v).scale(exact.c(s_)) + k.scale(k.dot(v) * exact.c(1 - c_))

    def hook(ev, call: ast.Call, name):
        nm = (name or "").split(".")[-1]
        if nm == "rotate" and len(call.args) == 4 and (name or "").split(".")[0] in ("f", "functions"):
            p, angle, axis, origin = (ev.eval(a) for a in call.args)
            if all(isinstance(x, exact.Vec) for x in (p, axis, origin)):
                return rodrigues(p, angle, axis, origin)
        if nm in ("cos", "sin") and len(call.args) == 1:
            c_, s_ = trig(ev.eval(call.args[0]))
            return exact.c(c_ if nm == "cos" else s_)
        if nm == "get_params" and isinstance(call.func, ast.Attribute):
            return [exact.c(0)]
        if nm in ("array", "asarray", "copy") and call.args:
            return ev.eval(call.args[0])
        return NO_MATCH

    n = 0
    for normal, across_dir in (((0, 0, Fraction(5, 2)), (Fraction(3, 5), Fraction(4, 5), 0)), ((4, 6, 12), (Fraction(6, 7), Fraction(2, 7), Fraction(-3, 7))), ((0, 0, 1), (1, 0, 0))):
        N = exact.vec(*normal)
        centre = exact.vec(Fraction(1, 3), -2, Fraction(5, 7))
        nlen = exact.rsqrt(N.dot(N))
        khat = N.scale(exact.c(1) / nlen)
        for radius, height in ((Fraction(2), Fraction(9, 20)), (Fraction(3, 7), Fraction(0))):
            start = centre + exact.vec(*across_dir).scale(exact.c(radius)) + khat.scale(exact.c(height))
            clamp = Obj("clamp", cls=cls)
            ev = exact.evaluator(repo, init.module, extra=hook)
            try:
                ev.call_funcinfo(init, [clamp, start, centre, N, None])
            except (Raised, NotEvaluable) as err:
                raise AnalysisError(f"RadialClamp.__init__ not evaluable over exact rational vectors (normal {normal}): {err}") from err
            fnv = clamp.get("function") if clamp.has("function") else None
            r.require(fnv is not None, "RadialClamp does not hand a position function to ClampBase (on the model)")
            for sense in (1, -1):
                param = exact.c(radius * T * sense)
                try:
                    got = ev.call_value(fnv, [[param]])
                except (Raised, NotEvaluable) as err:
                    raise AnalysisError(f"RadialClamp's position function not evaluable over exact rational vectors (normal {normal}): {err}") from err
                want = rodrigues(start, exact.c(T * sense), N, centre)
                n += 1
                key = f"normal={tuple(str(x) for x in normal)}:r={radius}:{'+' if sense > 0 else '-'}"
                if not isinstance(got, exact.Vec):
                    r.bad(init, f"RadialClamp's position function returns {got!r} (not a point) on the exact model", init.node, key=key)
                    continue
                v = got - centre
                h = exact.value(khat.dot(v))
                rad2 = exact.value(v.dot(v)) - h * h
                same = exact.same(got, want)
                r.check(
                    same,
                    init,
                    f"normal {tuple(str(x) for x in normal)}, radius {radius}, turn {'+' if sense > 0 else '-'}: on the circle",
                    f"RadialClamp(start, centre, normal={tuple(str(x) for x in normal)}) moved by the parameter of a turn with cosine 3/5: the point is at distance^2 {rad2} from the axis and height {h} "
                    f"(start: distance^2 {radius * radius}, height {height}) - it has left the declared circle; the position function is right for unit normals only (the axis is used without being normalised)",
                    init.node,
                    key=key,
                )
    r.require(n >= 6, f"only {n} exact scenarios examined")
    return r


radial_exact.rule_id = "C17.RADIAL-EXACT"


def no_alias_snapshot(repo: Repo) -> RuleRun:
    """'After the leader of a link moves, the follower is ...' - however the leader was moved, also in place: no update is skipped on the strength of a comparison with an alias."""
    from ..memo import alias_snapshot_rule

    return alias_snapshot_rule(repo, PROP, "C17.NO-ALIAS-SNAPSHOT")


no_alias_snapshot.rule_id = "C17.NO-ALIAS-SNAPSHOT"


def rotation_exact(repo: Repo, prop: str = PROP, rule: str = "C17.ROTATION-EXACT") -> RuleRun:
    """'After the leader of a link moves, the follower is ... the original follower rotated about the axis by the angle the leader
    turned (rotation)' - for turns of any size, and also when the leader slides along the axis while it turns: RotationLink is
    constructed by the abstract evaluator over exact rational vectors (non-unit axis of rational length), its leader is then put
    at the exact image of a Pythagorean turn (53.1, 126.9, -143.1, -36.9 degrees) with and without an axial slide, and transform()
    must return the original follower turned by exactly that angle. functions.rotate is given its exact meaning."""
    import math
    from fractions import Fraction

    from .. import exact

    r = RuleRun(prop, rule, floor=12, what="RotationLink.transform turns the follower by exactly the angle its leader turned about the axis - beyond a quarter turn, in either sense, with an axial slide of the leader (exact rational evaluation)")
    r.exhaustive = True
    cls = repo.cls("optimize.links.RotationLink")
    init = repo.find_method(cls, "__init__")
    tr = repo.find_method(cls, "transform")
    r.require(init is not None and tr is not None, "RotationLink.__init__ / transform vanished")
    class WrongAngle(Exception):
        """the follower is turned by an angle that is none of the turns the leader was given"""

    TURNS = [(Fraction(3, 5), Fraction(4, 5)), (Fraction(-3, 5), Fraction(4, 5)), (Fraction(-4, 5), Fraction(-3, 5)), (Fraction(4, 5), Fraction(-3, 5))]

    def trig(angle):
        x = float(exact.value(angle)) if isinstance(angle, exact.Rat) else float(angle)
        if abs(x) < 1e-12:
            return Fraction(1), Fraction(0)
        for c_, s_ in TURNS + [(c2, -s2) for c2, s2 in TURNS]:
            if abs(math.atan2(float(s_), float(c_)) - x) < 1e-9:
                return c_, s_
        raise WrongAngle(math.degrees(x))

    def rodrigues(p, cs, axis, origin):
        c_, s_ = cs
        k = axis.scale(exact.c(1) / exact.rsqrt(axis.dot(axis)))
        v = p - origin
        return origin + v.scale(exact.c(c_)) + k.cross(v).scale(exact.c(s_)) + k.scale(k.dot(v) * exact.c(1 - c_))

    def hook(ev, call: ast.Call, name):
        nm = (name or "").split(".")[-1]
        if nm == "rotate" and len(call.args) == 4 and (name or "").split(".")[0] in ("f", "functions"):
            p_, angle, axis, origin = (ev.eval(a) for a in call.args)
            if all(isinstance(x, exact.Vec) for x in (p_, axis, origin)):
                return rodrigues(p_, trig(angle), axis, origin)
        if nm in ("array", "asarray", "copy") and call.args:
            return ev.eval(call.args[0])
        return NO_MATCH

    n = 0
    for axis_t, e1_t, e2_t in (((0, 0, Fraction(5, 2)), (1, 0, 0), (0, 1, 0)), ((4, 6, 12), (Fraction(6, 7), Fraction(2, 7), Fraction(-3, 7)), (Fraction(3, 7), Fraction(-6, 7), Fraction(2, 7)))):
        A = exact.vec(*axis_t)
        khat = A.scale(exact.c(1) / exact.rsqrt(A.dot(A)))
        e1, e2 = exact.vec(*e1_t), exact.vec(*e2_t)
        r.require(exact.same(e1.cross(e2), khat) or exact.same(e2.cross(e1), khat), "internal: the model frame is not orthonormal")
        sense = 1 if exact.same(e1.cross(e2), khat) else -1
        origin = exact.vec(Fraction(1, 3), -2, Fraction(5, 7))
        leader0 = origin + e1.scale(exact.c(Fraction(3, 2))) + khat.scale(exact.c(Fraction(2, 5)))
        follower0 = origin + e1.scale(exact.c(Fraction(-1, 2))) + e2.scale(exact.c(2)) + khat.scale(exact.c(Fraction(-3, 4)))
        for (c_, s_) in TURNS:
            for slide in (Fraction(0), Fraction(2)):  # 3/2 (radius of the leader), 2, 5/2: a corrupted radius keeps a rational length
                link = Obj("link", cls=cls)
                ev = exact.evaluator(repo, init.module, extra=hook)
                try:
                    ev.call_funcinfo(init, [link, leader0, follower0, A, origin])
                    cs = (c_, s_ * sense)
                    link.set("leader", rodrigues(leader0, cs, A, origin) + khat.scale(exact.c(slide)))
                    got = ev.call_funcinfo(tr, [link])
                except WrongAngle as wa:
                    n += 1
                    deg = math.degrees(math.atan2(float(s_), float(c_)))
                    r.bad(
                        tr,
                        f"RotationLink (axis {tuple(str(x) for x in axis_t)}): the leader was turned by {deg:.1f} degrees about the axis{' and moved by ' + str(slide) + ' along it' if slide else ''}, the follower is turned by "
                        f"{float(wa.args[0]):.1f} degrees: the angle is measured between vectors that are not the two radii (a height remembered from construction, ...), the follower loses its angular relation to the leader",
                        tr.node,
                        key=f"axis{axis_t[2]}:turn{deg:.0f}:slide{slide}",
                    )
                    continue
                except (Raised, NotEvaluable) as err:
                    raise AnalysisError(f"RotationLink not evaluable over exact rational vectors (axis {axis_t}, turn cos {c_}): {err}") from err
                want = rodrigues(follower0, cs, A, origin)
                n += 1
                deg = math.degrees(math.atan2(float(s_), float(c_)))
                r.check(
                    isinstance(got, exact.Vec) and exact.same(got, want),
                    tr,
                    f"axis {tuple(str(x) for x in axis_t)}, leader turned {deg:.1f} deg{' and slid along the axis' if slide else ''}: follower turned by the same angle",
                    f"RotationLink (axis {tuple(str(x) for x in axis_t)}): the leader was turned by {deg:.1f} degrees about the axis{' and moved by ' + str(slide) + ' along it' if slide else ''}, the follower is put at "
                    f"{[str(exact.value(x)) for x in got.c] if isinstance(got, exact.Vec) else got!r} instead of {[str(exact.value(x)) for x in want.c]}: it has not turned by the angle its leader turned (beyond a quarter turn / "
                    "with an axial slide the angle between the radii is measured wrongly) and loses its angular relation to the leader",
                    tr.node,
                    key=f"axis{axis_t[2]}:turn{deg:.0f}:slide{slide}",
                )
    r.require(n >= 12, f"only {n} exact scenarios examined")
    return r


rotation_exact.rule_id = "C17.ROTATION-EXACT"


def params_solved(repo: Repo, prop: str = PROP, rule: str = "C17.PARAMS-SOLVED") -> RuleRun:
    """'A freshly created clamp reports the position it was created at (its closest point on the constraint if that position is off
    it)': the parameters of a new clamp are the SOLUTION of the closest-point problem; a hint (initial_params) is where the search
    starts, not its answer. On every path through ClampBase.get_params the value returned comes out of the minimiser."""
    from ..cfg import CFG

    r = RuleRun(prop, rule, floor=1, what="every return of ClampBase.get_params passes through the closest-point minimisation (a hint is only a starting value)")
    fn = repo.func("optimize.clamps.clamp.ClampBase.get_params")
    g = CFG(fn.node)
    ok, path = g.must_pass(g.entry, g.exit_return, lambda x: x.kind == "stmt" and any(isinstance(c, ast.Call) and (attr_chain(c.func) or "").split(".")[-1] in ("minimize", "minimize_scalar", "least_squares", "brentq", "fmin") for c in ast.walk(x.stmt)))
    r.check(ok, fn, "every path to a result runs the minimiser", "ClampBase.get_params can return without minimising the distance to the vertex (an early return of the hint): a clamp created with approximate initial parameters sits at the hint, not at the position it was created at / the closest point of its constraint", fn.node, key="solved")
    return r


params_solved.rule_id = "C17.PARAMS-SOLVED"



def initial_guess(repo: Repo) -> RuleRun:
    """'every clamped vertex ends on its ... curve ... or surface' - on the stretch the user pointed at: where a clamp class takes
    starting parameters from the caller (it reads self.initial_params in its initial_guess), the search for the vertex' own
    parameters STARTS at exactly those, whatever the bounds are and wherever in the curve's own parameter range they lie (a full
    circle runs to 2 pi, a helix further). Abstract run of every such initial_guess with supplied parameters, with and without bounds."""
    from ..peval import NO_MATCH, Evaluator, NotEvaluable, Obj, Raised, Sym

    r = RuleRun(PROP, "C17.INITIAL-GUESS", floor=2, what="a clamp that accepts starting parameters starts its parameter search exactly there (unclipped, bounds or not)")
    base = repo.cls("optimize.clamps.clamp.ClampBase")
    n = 0

    def hook(ev, call: ast.Call, name):
        nm = (name or "").split(".")[-1]
        if nm == "clip" and len(call.args) == 3:
            v, lo, hi = (ev.eval(a) for a in call.args)
            if isinstance(v, list) and all(isinstance(x, (int, float)) for x in v) and isinstance(lo, (int, float)) and isinstance(hi, (int, float)):
                return [min(max(x, lo), hi) for x in v]
        if nm in ("array", "asarray", "copy") and call.args:
            return ev.eval(call.args[0])
        return NO_MATCH

    for cls in sorted(repo.subclasses(base), key=lambda c: c.qualname):
        fn = cls.methods.get("initial_guess")
        if fn is None or not any(isinstance(x, ast.Attribute) and x.attr == "initial_params" for x in ast.walk(fn.node)):
            continue
        for bounds in (None, [[-2.0, 9.0], [-1.0, 20.0]]):
            for given in ([4.25, 7.5], [0.3, 0.6]):
                this = Obj("clamp", cls=cls)
                this.set("initial_params", list(given))
                this.set("bounds", bounds)
                ev = Evaluator(repo=repo, module=fn.module, call_hook=hook)
                ev.float_arith = True
                try:
                    got = ev.call_funcinfo(fn, [this])
                except (Raised, NotEvaluable) as err:
                    raise AnalysisError(f"{fn.qualname} not evaluable with supplied starting parameters: {err}") from err
                n += 1
                r.check(
                    got == given,
                    fn,
                    f"{cls.name}: starting parameters {given}, bounds {bounds}: search starts there",
                    f"{fn.qualname} with starting parameters {given} supplied by the caller and bounds {bounds} starts the search at {got}: on a curve or surface with several stretches near the vertex "
                    "(a corrugated sheet, the second turn of a helix, a full circle beyond parameter 1) the minimiser ends on another stretch - a clamp created exactly ON its curve reports a position far from its vertex",
                    fn.node,
                    key=f"{cls.name}:{given}:{'bounds' if bounds else 'free'}",
                )
    r.require(n >= 8, f"only {n} initial_guess scenarios (CurveClamp, ParametricSurfaceClamp) evaluated")
    return r


initial_guess.rule_id = "C17.INITIAL-GUESS"



def direction_length(repo: Repo) -> RuleRun:
    """'linked vertices keep their ... mirror relation to their leader' / 'mirroring any entity ...': a mirror plane is given by a direction - its normal at any length. Shared rule (affine.direction_length_rule)."""
    from ..affine import direction_length_rule

    return direction_length_rule(repo, PROP, "C17.DIRECTION-LENGTH")


direction_length.rule_id = "C17.DIRECTION-LENGTH"


RULES = [purity, position_writers, link_algebra, affine_kinds, mirror_matrix, trig_domain, params_used, owns_geometry, angle_dimension, closest_search, float_stores, who_writes_points, symmetry_exact, angle_between_exact, match_tolerance, links_accumulate, radial_exact, no_alias_snapshot, rotation_exact, params_solved, link_chain, initial_guess, direction_length]

"""C20 - construction and life-cycle preconditions are enforced symmetrically."""

from __future__ import annotations

import ast
import re
from typing import Any, Dict, List, Optional, Set, Tuple

from ..cfg import CFG
from ..model import AnalysisError, ClassInfo, FuncInfo, Repo, attr_chain, parent, walk_shallow
from ..peval import NO_MATCH, Evaluator, NotEvaluable, Obj, Raised, Sym, empty_defaults
from ..report import RuleRun
from ..util import node_calls
from .c10 import _run, corner_point, real_operation, sym_face
from .c18 import dist_hook

PROP = "C20"
TITLE = "Construction and life-cycle preconditions are enforced symmetrically"
DECIDES = (
    "every tolerance comparison that guards a raise compares a non-negative quantity (abs, norm, a callee whose every return is "
    "non-negative) or tests both signs - a raw dot product compared with '> TOL' accepts the whole negative side "
    "(C20.ONE-SIDED-TOL); an index guard whose message states a two-sided range rejects lo-1 and hi+1 and accepts lo and hi when "
    "its condition is evaluated (C20.ONE-SIDED-RANGE); abstract evaluation of the integer/life-cycle guards on both sides of each "
    "boundary: corner and side-edge indices, frame corner pairs, number of projection surfaces, section length ratio, second clamp, "
    "links/clamps without vertex, grading/back-porting before assembly, negative chain lengths and radii (C20.GUARD-EVAL); for the "
    "geometric preconditions a raise of the documented exception class exists and, for mutators, dominates the first state change "
    "(C20.GUARD-TABLE)."
    " LoftedShape refuses a list of mid sketches as soon as ONE of them has a different face count, wherever it stands; Cylinder.fill accepts exactly the segment count of its sketch's outer faces (parts of C20.GUARD-EVAL); raising upper-bound guards against a geometric magnitude compare a non-negative quantity, not the caller's raw signed number (C20.SIGNED-MAGNITUDE); what assemble() records on the mesh clear() resets (C20.LIFECYCLE-STATE = C12.CLEAR-COMPLETE)."
    ' Face(points, edges) rejects every edge list that does not have four entries, the empty one included; AwareFaceStore.is_disconnected is true as soon as one face is solitary (parts of C20.GUARD-EVAL).'
    ' Guards whose message demands a strict relation reject the boundary (C20.MESSAGE-STRICTNESS); corner indexes of project_corner / project_edge / Face.project_edge, the axis of Operation.chop, NaN length ratios (parts of C20.GUARD-EVAL).'
)
NOT_DECIDED = "behaviour for inputs that no guard mentions; the numeric value of tolerances."
ASSUMPTIONS = ["norm(), abs(), len() and squares are non-negative; point_to_plane_distance and friends are summarised from their own returns"]

NONNEG_FUNCS = {"abs", "norm", "len", "fabs", "sqrt", "hypot"}


class SignEnv:
    def __init__(self, repo: Repo, fn: FuncInfo):
        self.repo = repo
        self.fn = fn
        self._summary: Dict[str, bool] = {}

    def callee_nonneg(self, call: ast.Call, depth: int = 0) -> bool:
        nm = attr_chain(call.func) or ""
        if nm.split(".")[-1] in NONNEG_FUNCS:
            return True
        if depth > 3:
            return False
        from ..model import TypeEnv

        callees, _ = TypeEnv(self.repo, self.fn).resolve_call(call)
        if not callees:
            return False
        for c in callees:
            if c.qualname not in self._summary:
                self._summary[c.qualname] = False
                rets = [n for n in walk_shallow(c.node) if isinstance(n, ast.Return)]
                sub = SignEnv(self.repo, c)
                sub._summary = self._summary
                self._summary[c.qualname] = bool(rets) and all(r.value is not None and sub.nonneg(r.value, depth + 1) for r in rets)
            if not self._summary[c.qualname]:
                return False
        return True

    def nonneg(self, e: ast.expr, depth: int = 0) -> bool:
        if isinstance(e, ast.Constant) and isinstance(e.value, (int, float)):
            return e.value >= 0
        if isinstance(e, ast.Call):
            if attr_chain(e.func) in ("float", "int") and e.args:
                return self.nonneg(e.args[0], depth)
            return self.callee_nonneg(e, depth)
        if isinstance(e, ast.BinOp):
            if isinstance(e.op, ast.Pow) and isinstance(e.right, ast.Constant) and isinstance(e.right.value, int) and e.right.value % 2 == 0:
                return True
            if isinstance(e.op, (ast.Add, ast.Mult, ast.Div)):
                return self.nonneg(e.left, depth) and self.nonneg(e.right, depth)
            return False
        if isinstance(e, ast.Name):
            # single reaching definition in this function
            defs = [n for n in walk_shallow(self.fn.node) if isinstance(n, ast.Assign) and any(isinstance(t, ast.Name) and t.id == e.id for t in n.targets)]
            aug = [n for n in walk_shallow(self.fn.node) if isinstance(n, ast.AugAssign) and isinstance(n.target, ast.Name) and n.target.id == e.id]
            if len(defs) >= 1 and not aug:
                return all(self.nonneg(d.value, depth) for d in defs)
            return False
        if isinstance(e, ast.Attribute):
            # property with non-negative returns
            from ..model import TypeEnv

            props = TypeEnv(self.repo, self.fn).resolve_property(e)
            if props:
                ok = True
                for p in props:
                    rets = [n for n in walk_shallow(p.node) if isinstance(n, ast.Return)]
                    ok = ok and bool(rets) and all(r.value is not None and SignEnv(self.repo, p).nonneg(r.value, depth + 1) for r in rets)
                return ok
            return False
        if isinstance(e, ast.IfExp):
            return self.nonneg(e.body, depth) and self.nonneg(e.orelse, depth)
        return False


def _is_tol(e: ast.expr) -> bool:
    return (attr_chain(e) or "").split(".")[-1] in ("TOL", "VSMALL")


def _is_tol_term(e: ast.expr) -> bool:
    """TOL itself, or TOL scaled by further factors (TOL * norm(a) * norm(b): a tolerance relative to the size of the thing tested)"""
    if _is_tol(e):
        return True
    return isinstance(e, ast.BinOp) and isinstance(e.op, ast.Mult) and (_is_tol_term(e.left) or _is_tol_term(e.right))


def _guards_raise(cmp_: ast.Compare, fn: FuncInfo) -> Optional[ast.If]:
    p = parent(cmp_)
    while p is not None and not isinstance(p, ast.stmt):
        p = parent(p)
    if isinstance(p, ast.If) and any(x is cmp_ for x in ast.walk(p.test)) and any(isinstance(b, ast.Raise) for b in p.body):
        return p
    return None


def one_sided_tol(repo: Repo) -> RuleRun:
    r = RuleRun(PROP, "C20.ONE-SIDED-TOL", floor=7, what="tolerance comparisons guarding a raise compare a non-negative quantity or both signs")
    total = 0
    for fn in sorted(repo.all_functions(), key=lambda f: f.qualname):
        for n in ast.walk(fn.node):
            if not (isinstance(n, ast.Compare) and len(n.ops) == 1):
                continue
            lhs, rhs = n.left, n.comparators[0]
            if not (_is_tol_term(rhs) or _is_tol_term(lhs)):
                continue
            total += 1
            guard = _guards_raise(n, fn)
            if guard is None:
                continue
            expr, op = (lhs, n.ops[0]) if _is_tol_term(rhs) else (rhs, {ast.Gt: ast.Lt(), ast.Lt: ast.Gt(), ast.GtE: ast.LtE(), ast.LtE: ast.GtE()}.get(type(n.ops[0]), n.ops[0]))
            env = SignEnv(repo, fn)
            nn = env.nonneg(expr)
            negated = isinstance(parent(n), ast.UnaryOp) and isinstance(parent(n).op, ast.Not)
            rejects_large = isinstance(op, (ast.Gt, ast.GtE)) != negated
            # a companion test of the other sign in the same condition
            both = any(isinstance(c, ast.Compare) and c is not n and ast.unparse(c.left) == ast.unparse(expr) and isinstance(c.comparators[0], ast.UnaryOp) for c in ast.walk(guard.test))
            if rejects_large:
                r.check(
                    nn or both,
                    fn,
                    f"'{ast.unparse(n)}' guards a raise on a non-negative quantity",
                    f"'{ast.unparse(n)}' guards a raise, but {ast.unparse(expr)} is a signed quantity (no abs/norm): deviations of the opposite sign are accepted "
                    "- the precondition is enforced on one side only",
                    guard,
                    key=f"guard:{ast.unparse(n)}",
                )
            else:
                r.ok(fn, f"'{ast.unparse(n)}' rejects small values (lower-bound guard)", key=f"guard:{ast.unparse(n)}")
    r.note(f"{total} comparisons against TOL/VSMALL in the package; {len(r.instances)} of them guard a raise")
    return r


one_sided_tol.rule_id = "C20.ONE-SIDED-TOL"


RANGE_RE = re.compile(r"between\s+(-?\d+)\s+and\s+(-?\d+)|\((-?\d+)\s*\.\.\.\s*(-?\d+)\)|(-?\d+)\s*\.\.\.\s*(-?\d+)")


def one_sided_range(repo: Repo) -> RuleRun:
    r = RuleRun(PROP, "C20.ONE-SIDED-RANGE", floor=3, what="index guards with a two-sided range in their message reject both sides")
    for fn in sorted(repo.all_functions(), key=lambda f: f.qualname):
        for n in walk_shallow(fn.node):
            if not (isinstance(n, ast.If) and any(isinstance(b, ast.Raise) for b in n.body)):
                continue
            raise_ = [b for b in n.body if isinstance(b, ast.Raise)][0]
            msg = " ".join(c.value for c in ast.walk(raise_) if isinstance(c, ast.Constant) and isinstance(c.value, str))
            m = RANGE_RE.search(msg)
            if not m:
                continue
            nums = [int(x) for x in m.groups() if x is not None]
            lo, hi = nums[0], nums[1]
            if lo >= hi:
                continue
            # integer parameters mentioned in the test
            params = [p for p in fn.params if any(isinstance(x, ast.Name) and x.id == p for x in ast.walk(n.test))]
            if not params:
                continue
            ann = {a.arg: (ast.unparse(a.annotation) if a.annotation is not None else "") for a in fn.node.args.args}
            if not all(ann.get(p, "") in ("int", "") for p in params):
                continue
            problems = []
            for p in params:
                for v, expect in ((lo - 1, True), (lo, False), (hi, False), (hi + 1, True)):
                    env = {q: lo for q in params}
                    env[p] = v
                    try:
                        got = bool(Evaluator(env=env).eval(n.test))
                    except NotEvaluable as err:
                        raise AnalysisError(f"[C20.ONE-SIDED-RANGE] {fn.qualname}: guard '{ast.unparse(n.test)}' not evaluable: {err}") from err
                    if got is not expect:
                        problems.append(f"{p}={v} is {'rejected' if got else 'accepted'}")
            r.check(
                not problems,
                fn,
                f"'{ast.unparse(n.test)}' enforces {lo}..{hi}",
                f"the guard '{ast.unparse(n.test)}' announces the range {lo}...{hi} in its message but {', '.join(problems)}",
                n,
                key=f"range:{'/'.join(params)}",
            )
    return r


one_sided_range.rule_id = "C20.ONE-SIDED-RANGE"


# --------------------------------------------------------------------------------------------
def _raised(res) -> Optional[str]:
    return res[1] if isinstance(res, tuple) and len(res) == 2 and res[0] == "raised" else None


def _try(ev: Evaluator, fi: FuncInfo, args, kwargs=None):
    """Runs; 'NotEvaluable' after the guards means the guard let the arguments through."""
    try:
        return ev.call_funcinfo(fi, args, kwargs)
    except Raised as err:
        return ("raised", err.exc_name)
    except NotEvaluable:
        return ("passed-guard", None)


def fill_conformal(repo: Repo, r: RuleRun) -> None:
    from .. import sketches
    from ..model import ClassInfo

    cyl = repo.cls("construct.shapes.cylinder.Cylinder")
    fill = repo.func("construct.shapes.cylinder.Cylinder.fill")
    sk = repo.class_var(cyl, "sketch_class")
    sk_cls = repo.resolve_expr(sk[1].module, sk[0]) if sk is not None else None
    r.require(isinstance(sk_cls, ClassInfo), "Cylinder.sketch_class does not name a sketch class")
    n_outer = sum(1 for _, _, role in sketches.face_roles(repo, sk_cls) if role == "shell")
    wrong_fill = []
    for n_seg in range(1, 33):
        src = Obj("ring")
        src.set("sketch_1", Obj("annulus_1", n_segments=n_seg, center=Sym("c1"), inner_radius_point=Sym("rp")))
        src.set("sketch_2", Obj("annulus_2", n_segments=n_seg, center=Sym("c2"), inner_radius_point=Sym("rp2")))
        res = _try(Evaluator(repo=repo, module=fill.module), fill, [Sym("cls"), src])
        rejected = _raised(res) is not None
        if rejected == (n_seg == n_outer):
            wrong_fill.append((n_seg, "rejected" if rejected else "accepted"))
    r.check(
        not wrong_fill,
        fill,
        f"rings of 1..32 segments: accepted iff {n_outer} (= outer faces of {sk_cls.name})",
        f"Cylinder.fill: {wrong_fill[:6]} - the filling {sk_cls.name} has {n_outer} outer faces, so only a ring of {n_outer} segments shares all interface vertices with it; "
        "any other accepted count leaves hanging vertices on the interface",
        fill.node,
        key="fill:segments",
    )


def guard_eval(repo: Repo) -> RuleRun:
    r = RuleRun(PROP, "C20.GUARD-EVAL", floor=40, what="abstract evaluation of integer / life-cycle guards on both sides of each boundary")
    r.exhaustive = True

    def expect(fn: FuncInfo, res, should_raise: bool, label: str, allowed: Tuple[str, ...], node=None):
        exc = _raised(res)
        if should_raise:
            ok = exc is not None and any(exc.split(".")[-1] == a or _is_sub(repo, exc, a) for a in allowed)
            r.check(ok, fn, f"{label}: rejected with {exc}", f"{fn.qualname}: {label} is {'accepted' if exc is None else 'rejected with ' + exc}; expected one of {allowed}", node or fn.node, key=label)
        else:
            r.check(exc is None, fn, f"{label}: accepted", f"{fn.qualname}: valid input ({label}) is rejected with {exc}", node or fn.node, key=label)

    # Face.add_edge / Operation.add_side_edge
    fae = repo.func("construct.flat.face.Face.add_edge")
    for v, bad in ((-1, True), (0, False), (3, False), (4, True)):
        face = sym_face(repo)
        res = _try(Evaluator(repo=repo, module=fae.module), fae, [face, v, Sym("edge")])
        expect(fae, res, bad, f"corner={v}", ("FaceCreationError",))
    # Face(points, edges): a list of edges must have exactly four entries - also the empty list
    finit = repo.func("construct.flat.face.Face.__init__")

    def face_hook(ev, call, name):
        nm = call.func.attr if isinstance(call.func, ast.Attribute) else name
        if nm == "asarray" or nm == "array":
            return ev.eval(call.args[0])
        if nm == "shape":
            return (4, 3)
        if nm == "Point":
            return Sym("point")
        if nm == "Line":
            return Obj("line")
        if nm == "add_edge":
            return None
        return NO_MATCH

    for n_edges, bad in ((None, False), (0, True), (1, True), (3, True), (4, False), (5, True)):
        face = Obj("face", cls=repo.cls("construct.flat.face.Face"))
        edges = None if n_edges is None else [None] * n_edges
        res = _try(Evaluator(repo=repo, module=finit.module, call_hook=face_hook), finit, [face, [Sym(f"p{i}") for i in range(4)], edges])
        expect(finit, res, bad, f"edges={'None' if edges is None else 'list of ' + str(n_edges)}", ("FaceCreationError",))
    # axis of Operation.chop / Block.chop: the chop store is created by the constructor - a store that accepts any key (a
    # defaultdict) turns an out-of-range axis into a chop that is silently never applied
    oinit = repo.func("construct.operations.operation.Operation.__init__")
    ochop = repo.func("construct.operations.operation.Operation.chop")

    def op_hook(ev, call, name):
        if (name or "").split(".")[-1] in ("Line", "Chop"):
            return Obj((name or "x").split(".")[-1].lower())
        return NO_MATCH

    for axis, bad in ((-1, True), (0, False), (2, False), (3, True), (7, True)):
        op = Obj("op", cls=repo.cls("construct.operations.operation.Operation"))
        ev_o = Evaluator(repo=repo, module=oinit.module, call_hook=op_hook)
        res0 = _try(ev_o, oinit, [op, Sym("bottom_face"), Sym("top_face")])
        r.require(_raised(res0) is None and op.has("chops"), "Operation.__init__ does not create the chop store on the model")
        res = _try(Evaluator(repo=repo, module=ochop.module, call_hook=op_hook), ochop, [op, axis], {"count": 5})
        expect(ochop, res, bad, f"Operation.chop(axis={axis})", ("KeyError", "ValueError", "IndexError", "RuntimeError"))
        if not bad:
            store = op.get("chops")
            r.check(isinstance(store, dict) and len(store.get(axis, [])) == 1 and sum(len(v) for v in store.values()) == 1, ochop, f"chop stored on axis {axis} only", f"Operation.chop({axis}) leaves the store as {store!r}", key=f"Operation.chop(axis={axis}):stored")
    # Point(position): exactly one point in 3-D space - an array of any other shape (three points, a column vector) is refused
    pinit = repo.func("construct.point.Point.__init__")
    for shape, bad in (((3,), False), ((2,), True), ((4,), True), ((3, 3), True), ((3, 1), True), ((1, 3), True), ((3, 2), True), ((), True)):
        arr = Obj(f"array{shape}", shape=tuple(shape))

        def arr_hook(ev, call, name):
            nm = (name or "").split(".")[-1]
            if nm in ("array", "asarray") and call.args:
                return ev.eval(call.args[0])
            if nm == "shape" and call.args:
                v = ev.eval(call.args[0])
                if isinstance(v, Obj) and v.has("shape"):
                    return v.get("shape")
            if nm == "ndim" and call.args:
                v = ev.eval(call.args[0])
                if isinstance(v, Obj) and v.has("shape"):
                    return len(v.get("shape"))
            if nm in ("len", "size") and call.args:
                v = ev.eval(call.args[0])
                if isinstance(v, Obj) and v.has("shape"):
                    if nm == "size":
                        n_ = 1
                        for d_ in v.get("shape"):
                            n_ *= d_
                        return n_
                    if not v.get("shape"):
                        raise Raised("TypeError")
                    return v.get("shape")[0]
            return NO_MATCH

        pt = Obj("point", cls=repo.cls("construct.point.Point"))
        ev_p = Evaluator(repo=repo, module=pinit.module, call_hook=arr_hook)
        res = _try(ev_p, pinit, [pt, arr])
        expect(pinit, res, bad, f"Point(array of shape {shape})", ("PointCreationError", "TypeError", "ValueError", "IndexError"))
    # Side(orient, vertices): exactly the block's 8 vertices, for every orient (the corners a side needs differ from orient to orient)
    sinit = repo.func("items.side.Side.__init__")
    fmap = repo.module_constant("util.constants", "FACE_MAP") if hasattr(repo, "module_constant") else None
    for orient in ("bottom", "top", "left", "right", "front", "back"):
        for nv, bad in ((4, True), (7, True), (8, False), (9, True)):
            sd = Obj("side", cls=repo.cls("items.side.Side"))
            res = _try(Evaluator(repo=repo, module=sinit.module), sinit, [sd, orient, [Sym(f"v{i}") for i in range(nv)]])
            expect(sinit, res, bad, f"Side('{orient}', {nv} vertices)", ("SideCreationError", "IndexError"))
    # Elbow.chain: only a shape built on a full Disk can be continued by an elbow (12 blocks) - a half / quarter / one-core disk is another blocking
    echain = repo.func("construct.shapes.elbow.Elbow.chain")
    for sk_name, bad in (("Disk", False), ("HalfDisk", True), ("OneCoreDisk", True), ("QuarterDisk", True), ("WrappedDisk", True)):
        sk_cls = repo.cls(f"construct.flat.sketches.disk.{sk_name}") if sk_name != "Disk" else repo.resolve_name(echain.module, "Disk")
        src = Obj("source")
        for nm_ in ("sketch_1", "sketch_2"):
            src.set(nm_, Obj(f"{sk_name}-{nm_}", cls=sk_cls, center=Sym("c"), radius_point=Sym("rp"), normal=Sym("n")))

        def e_hook(ev, call, name):
            if name == "cls":
                return Obj("elbow")
            if name == "type":
                return Sym("type")
            return NO_MATCH

        ev_e = Evaluator(repo=repo, module=echain.module, call_hook=e_hook)
        ev_e.opaque_arith = True
        res = _try(ev_e, echain, [Sym("cls"), src, Sym("sweep"), Sym("arc_center"), Sym("axis"), Sym("r2")])
        expect(echain, res, bad, f"Elbow.chain(source on a {sk_name})", ("ElbowCreationError",))
    # Operation.unchop: the mutator that empties an axis must refuse the axes its sibling chop() refuses - an unknown axis
    # silently grows the store by a key nothing ever reads
    ounchop = repo.func("construct.operations.operation.Operation.unchop")
    for axis, bad in ((-1, True), (0, False), (2, False), (3, True), (5, True)):
        op = Obj("op", cls=repo.cls("construct.operations.operation.Operation"))
        res0 = _try(Evaluator(repo=repo, module=oinit.module, call_hook=op_hook), oinit, [op, Sym("bottom_face"), Sym("top_face")])
        r.require(_raised(res0) is None and op.has("chops"), "Operation.__init__ does not create the chop store on the model")
        for ax in (0, 1, 2):
            _try(Evaluator(repo=repo, module=ochop.module, call_hook=op_hook), ochop, [op, ax], {"count": 5})
        res = _try(Evaluator(repo=repo, module=ounchop.module, call_hook=op_hook), ounchop, [op, axis])
        expect(ounchop, res, bad, f"Operation.unchop(axis={axis})", ("KeyError", "ValueError", "IndexError", "RuntimeError"))
        store = op.get("chops")
        if not bad:
            r.check(isinstance(store, dict) and sorted(store) == [0, 1, 2] and [len(store[k]) for k in (0, 1, 2)] == [0 if k == axis else 1 for k in (0, 1, 2)], ounchop, f"unchop({axis}) empties axis {axis} only", f"Operation.unchop({axis}) leaves the store as {store!r}", key=f"Operation.unchop(axis={axis}):stored")
    # Face.remove_edges: the same corner range as add_edge / project_edge of the same class
    fre = repo.func("construct.flat.face.Face.remove_edges")

    def line_hook(ev, call, name):
        if (name or "").split(".")[-1] == "Line":
            return Obj("fresh-line")
        return NO_MATCH

    for corners, bad in (([-1], True), ([0], False), ([3], False), ([4], True), ([1, -2], True), (None, False)):
        face = sym_face(repo)
        before = list(face.get("edges"))
        res = _try(Evaluator(repo=repo, module=fre.module, call_hook=line_hook), fre, [face, corners])
        expect(fre, res, bad, f"Face.remove_edges({corners})", ("FaceCreationError", "IndexError", "ValueError"))
        if not bad:
            after = face.get("edges")
            want = set(range(4)) if corners is None else set(corners)
            got = {i for i in range(4) if after[i] is not before[i]}
            r.check(len(after) == 4 and got == want, fre, f"remove_edges({corners}) replaces edges {sorted(want)} only", f"Face.remove_edges({corners}) replaces the edges at {sorted(got)}", fre.node, key=f"Face.remove_edges({corners}):target")
    # Stack.get_slice: axis 0, 1, 2 only - any other axis must not be served as one of them
    gsl = repo.func("construct.stack.Stack.get_slice")
    for axis, bad in ((-1, True), (0, False), (1, False), (2, False), (3, True), (7, True)):
        stack = Obj("stack", cls=repo.cls("construct.stack.Stack"))
        shapes = []
        for k in range(3):
            grid = [[Obj(f"op{k}.{i}.{j}") for j in range(2)] for i in range(2)]
            sh = Obj(f"shape{k}", grid=grid, operations=[o for row in grid for o in row])
            shapes.append(sh)
        stack.set("shapes", shapes)
        res = _try(Evaluator(repo=repo, module=gsl.module), gsl, [stack, axis, 0])
        expect(gsl, res, bad, f"Stack.get_slice(axis={axis})", ("ValueError", "KeyError", "IndexError", "RuntimeError"))
        if not bad:
            got = sorted(repr(o) for o in res) if isinstance(res, list) else None
            if axis == 2:
                want = sorted(repr(o) for o in shapes[0].get("operations"))
            elif axis == 0:
                want = sorted(repr(shapes[k].get("grid")[x][0]) for k in range(3) for x in range(2))
            else:
                want = sorted(repr(shapes[k].get("grid")[0][y]) for k in range(3) for y in range(2))
            r.check(got == want, gsl, f"get_slice({axis}, 0) returns the operations of that slice", f"Stack.get_slice({axis}, 0) returns {got}, expected {want}", gsl.node, key=f"Stack.get_slice(axis={axis}):result")
    # corner indexes of the projection API: Python's negative indexes must not wrap around to another corner
    pc = repo.func("construct.operations.operation.Operation.project_corner")
    for v, bad in ((-1, True), (0, False), (3, False), (4, False), (7, False), (8, True), (-8, True)):
        op = real_operation(repo)
        res = _try(Evaluator(repo=repo, module=pc.module), pc, [op, v, "surface"])
        expect(pc, res, bad, f"project_corner({v})", ("ValueError", "IndexError", "KeyError", "RuntimeError"))
        if not bad:
            hit = [k for k in range(8) if "surface" in (corner_point(op, k).get("projected_to") or [])]
            r.check(hit == [v], pc, f"project_corner({v}) projects corner {v} only", f"Operation.project_corner({v}) projects corner(s) {hit}", pc.node, key=f"project_corner({v}):target")
    pe = repo.func("construct.operations.operation.Operation.project_edge")
    from .c10 import _bind_module_object, build_edge_map

    _ev_map, emap = build_edge_map(repo)
    for (a, b), bad in (((-1, 3), True), ((3, -1), True), ((0, 1), False), ((3, 7), False), ((7, 4), False), ((8, 0), True), ((0, 8), True), ((0, 2), True), ((-4, 0), True)):
        op = real_operation(repo)
        ev = Evaluator(repo=repo, module=pe.module)
        _bind_module_object(ev, repo, pe, "edge_map", emap)
        res = _try(ev, pe, [op, a, b, "surface"])
        expect(pe, res, bad, f"project_edge({a}, {b})", ("ValueError", "IndexError", "KeyError", "RuntimeError", "CornerPairError"))
    fpe = repo.func("construct.flat.face.Face.project_edge")
    for v, bad in ((-1, True), (0, False), (3, False), (4, True)):
        for already in (False, True):
            face = sym_face(repo, line_cls=repo.cls("construct.edges.Project") if already else None)
            if already:
                for e in face.get("edges"):
                    e.set("label", ["other"])
            res = _try(Evaluator(repo=repo, module=fpe.module), fpe, [face, v, "surface"])
            expect(fpe, res, bad, f"Face.project_edge({v}) on {'projected' if already else 'plain'} edges", ("FaceCreationError", "IndexError"))
    # AwareFaceStore.is_disconnected: true as soon as ONE face shares no point with the others
    isd = repo.func("construct.shapes.shell.AwareFaceStore.is_disconnected")
    for flags in ((False,), (True,), (False, False), (True, False), (False, True), (True, True), (False, True, False)):
        store = Obj("store", cls=repo.cls("construct.shapes.shell.AwareFaceStore"))
        faces = [Obj(f"face{i}", solitary=f) for i, f in enumerate(flags)]
        store.set("faces", faces)

        def aware_hook(ev, call, name):
            if isinstance(call.func, ast.Attribute) and call.func.attr == "get_aware_face":
                f = ev.eval(call.args[0])
                return Obj("aware", is_solitary=f.get("solitary"))
            return NO_MATCH

        try:
            got = Evaluator(repo=repo, module=isd.module, call_hook=aware_hook).call_funcinfo(isd, [store])
        except (NotEvaluable, Raised) as err:
            raise AnalysisError(f"AwareFaceStore.is_disconnected not evaluable: {err}") from err
        r.check(got is any(flags), isd, f"solitary flags {flags} -> {got}", f"AwareFaceStore.is_disconnected with per-face solitary flags {flags} gives {got}; expected {any(flags)} - one loft that shares no point with the others is enough for the chop of one loft not to reach it, so the warning must fire", isd.node, key=f"disconnected:{flags}")
    ase = repo.func("construct.operations.operation.Operation.add_side_edge")
    for v, bad in ((-1, True), (0, False), (3, False), (4, True)):
        op = real_operation(repo)
        res = _try(Evaluator(repo=repo, module=ase.module), ase, [op, v, Sym("edge")])
        expect(ase, res, bad, f"corner_idx={v}", ("EdgeCreationError",))
        if not bad:
            r.check(repr(op.get("side_edges")[v]) == "edge", ase, f"slot {v} set", f"add_side_edge({v}) does not store the edge in slot {v}", key=f"corner_idx={v}:stored")
    # Block.add_edge
    bae = repo.func("items.block.Block.add_edge")
    for (a, b), bad in (((-1, 0), True), ((0, -1), True), ((0, 1), False), ((7, 6), False), ((8, 0), True), ((0, 8), True)):
        blk = Obj("block", cls=repo.cls("items.block.Block"))
        blk.set("wires", [{j: Obj(f"wire{i}{j}") for j in range(8)} for i in range(8)])
        res = _try(Evaluator(repo=repo, module=bae.module), bae, [blk, a, b, Sym("edge")])
        expect(bae, res, bad, f"corners=({a},{b})", ("ValueError",))
    # Frame.add_beam: exactly the 12 block edges (both orders) are accepted
    from .. import hexa

    fab = repo.func("util.frame.Frame.add_beam")
    wrong = []
    for a in range(-1, 9):
        for b in range(-1, 9):
            fr = Obj("frame", cls=repo.cls("util.frame.Frame"))
            fr.set("beams", [{} for _ in range(8)])
            res = _try(Evaluator(repo=repo, module=fab.module), fab, [fr, a, b, Sym("beam")])
            rejected = _raised(res) is not None
            if rejected == hexa.is_edge(a, b):
                wrong.append((a, b, "rejected" if rejected else "accepted"))
    r.check(not wrong, fab, "121 corner pairs: accepted iff block edge", f"Frame.add_beam: {wrong[:6]} ...", fab.node, key="add_beam:pairs")
    # EdgeLocation.start_corner
    sc = repo.func("util.tools.EdgeLocation.start_corner")
    for (a, b), bad in (((0, 2), True), ((1, 3), True), ((0, 1), False), ((3, 0), False), ((2, 6), False), ((0, 5), True)):
        loc = Obj("loc", cls=repo.cls("util.tools.EdgeLocation"))
        loc.set("corner_1", a)
        loc.set("corner_2", b)
        loc.set("side", "bottom")
        res = _try(Evaluator(repo=repo, module=sc.module), sc, [loc])
        expect(sc, res, bad, f"pair=({a},{b})", ("CornerPairError",))
    # Project: 1..2 surfaces
    pinit = repo.func("construct.edges.Project.__init__")
    padd = repo.func("construct.edges.Project.add_label")
    for labels, bad in ((["a"], False), (["a", "b"], False), (["a", "b", "c"], True), ([], True)):
        pr = Obj("project", cls=repo.cls("construct.edges.Project"))
        res = _try(Evaluator(repo=repo, module=pinit.module), pinit, [pr, list(labels)])
        expect(pinit, res, bad, f"labels={labels}", ("EdgeCreationError",))
    pr = Obj("project", cls=repo.cls("construct.edges.Project"))
    _try(Evaluator(repo=repo, module=pinit.module), pinit, [pr, ["a", "b"]])
    expect(padd, _try(Evaluator(repo=repo, module=pinit.module), padd, [pr, "b"]), False, "add_label(existing)", ("EdgeCreationError",))
    expect(padd, _try(Evaluator(repo=repo, module=pinit.module), padd, [pr, "c"]), True, "add_label(third surface)", ("EdgeCreationError",))
    # Grading.add_chop length ratio in (0, 1]
    gac = repo.func("grading.grading.Grading.add_chop")

    def chop_hook(ev, call, name):
        if isinstance(call.func, ast.Attribute) and call.func.attr == "calculate":
            return (1, 1)
        return NO_MATCH

    for ratio, bad in ((0, True), (-0.5, True), (0.5, False), (1, False), (1.5, True), (float("nan"), True), (float("inf"), True)):
        gr = Obj("grading", cls=repo.cls("grading.grading.Grading"))
        gr.set("length", 1)
        gr.set("specification", [])
        ch = Obj("chop")
        ch.set("length_ratio", ratio)
        ev = Evaluator(repo=repo, module=gac.module, call_hook=chop_hook)
        ev.opaque_arith = True
        res = _try(ev, gac, [gr, ch])
        expect(gac, res, bad, f"length_ratio={ratio}", ("ValueError",))
        if bad:
            r.check(gr.get("specification") == [], gac, "nothing appended on rejection", "Grading.add_chop appends a division before rejecting the length ratio", key=f"length_ratio={ratio}:state")
    # ... and the ratio the user gave is the ratio the guard sees: the Chop constructor does not repair it on the way
    cpi = repo.find_method(repo.cls("grading.chop.Chop"), "__post_init__")
    if cpi is None:
        raise AnalysisError("Chop.__post_init__ vanished")

    def pi_hook(ev_, call, name):
        nm = (name or "").split(".")[-1]
        if nm == "int" and len(call.args) == 1:
            v = ev_.eval(call.args[0])
            if isinstance(v, (int, float)) and not isinstance(v, bool):
                return int(v)
        if nm in ("max", "min") and len(call.args) == 2:
            a, b = ev_.eval(call.args[0]), ev_.eval(call.args[1])
            if all(isinstance(x, (int, float)) and not isinstance(x, bool) for x in (a, b)):
                return max(a, b) if nm == "max" else min(a, b)
        if nm == "clip" and len(call.args) == 3:
            v, lo, hi = (ev_.eval(a) for a in call.args)
            if all(isinstance(x, (int, float)) for x in (v, lo, hi)):
                return min(max(v, lo), hi)
        if nm == "dict":
            return {}
        return NO_MATCH

    for ratio in (1.5, 2, 1.001, 0, -0.5, 0.25):
        ch = Obj("chop", cls=repo.cls("grading.chop.Chop"))
        for fld in ("start_size", "end_size", "c2c_expansion", "total_expansion"):
            ch.set(fld, None)
        ch.set("count", 5)
        ch.set("length_ratio", ratio)
        ch.set("preserve", "c2c_expansion")
        ev = Evaluator(repo=repo, module=cpi.module, call_hook=pi_hook)
        ev.float_arith = True
        try:
            ev.call_funcinfo(cpi, [ch])
            after = ch.get("length_ratio")
        except Raised:
            after = ratio  # refused on the spot: fine as well
        except NotEvaluable as err:
            raise AnalysisError(f"Chop.__post_init__ not evaluable with length_ratio={ratio}: {err}") from err
        r.check(
            after == ratio,
            cpi,
            f"Chop(length_ratio={ratio}) keeps the ratio it was given",
            f"Chop(count=5, length_ratio={ratio}) stores length_ratio={after!r}: the out-of-range ratio is repaired silently before Grading.add_chop - which refuses ratios outside (0, 1] - can see it, "
            "and a section as long as the whole edge is graded where the documented precondition demands an error",
            cpi.node,
            key=f"chop-ratio:{ratio}",
        )
    # LoftedShape: EVERY mid sketch must have as many faces as the end sketches, wherever it stands in the list
    lsi = repo.func("construct.shape.LoftedShape.__init__")

    def sk(nf):
        return Obj(f"sketch{nf}", faces=[Sym(f"f{i}") for i in range(nf)])

    for label, mids, bad in (
        ("mid=[5]", [5], False), ("mid=[5,5]", [5, 5], False), ("mid=[12]", [12], True), ("mid=[5,12]", [5, 12], True), ("mid=[12,5]", [12, 5], True),
        ("mid=[5,12,5]", [5, 12, 5], True), ("mid=[12,12]", [12, 12], True),
    ):
        shp = Obj("shape", cls=repo.cls("construct.shape.LoftedShape"))
        res = _try(Evaluator(repo=repo, module=lsi.module), lsi, [shp, sk(5), sk(5), [sk(k) for k in mids]])
        expect(lsi, res, bad, f"end sketches with 5 faces, {label}", ("ShapeCreationError",))
    res = _try(Evaluator(repo=repo, module=lsi.module), lsi, [Obj("shape", cls=repo.cls("construct.shape.LoftedShape")), sk(5), sk(6), None])
    expect(lsi, res, True, "end sketches with 5 and 6 faces", ("ShapeCreationError",))
    # Cylinder.fill: the filling cylinder's sketch has a fixed number of outer faces; a ring is accepted iff it has as many
    fill_conformal(repo, r)
    # Junction.add_clamp twice
    jac = repo.func("optimize.junction.Junction.add_clamp")
    j = Obj("junction", cls=repo.cls("optimize.junction.Junction"))
    j.set("clamp", None)
    j.set("index", 0)
    expect(jac, _try(Evaluator(repo=repo, module=jac.module), jac, [j, Sym("clamp1")]), False, "first clamp", ("ClampExistsError",))
    expect(jac, _try(Evaluator(repo=repo, module=jac.module), jac, [j, Sym("clamp2")]), True, "second clamp", ("ClampExistsError",))
    r.check(repr(j.get("clamp")) == "clamp1", jac, "first clamp kept", "the second clamp replaced the first one before the error", key="second clamp:state")
    # GridBase.add_clamp / add_link / get_junction_from_clamp
    gcls = repo.cls("optimize.grid.GridBase")

    def mkgrid(n=3):
        g = Obj("grid", cls=gcls)
        js = []
        for i in range(n):
            jj = Obj(f"j{i}", cls=repo.cls("optimize.junction.Junction"))
            jj.set("point", i * 10)
            jj.set("clamp", None)
            jj.set("links", [])
            jj.set("index", i)
            js.append(jj)
        g.set("junctions", js)
        return g

    gadd = repo.func("optimize.grid.GridBase.add_clamp")
    for pos, bad in ((10, False), (15, True)):
        cl = Obj("clamp")
        cl.set("position", pos)
        expect(gadd, _try(Evaluator(repo=repo, module=gadd.module, call_hook=dist_hook()), gadd, [mkgrid(), cl]), bad, f"clamp at {pos} (junctions at 0,10,20)", ("NoJunctionError",))
    glink = repo.func("optimize.grid.GridBase.add_link")
    for (ld, fo), bad in (((0, 10), False), ((5, 10), True), ((0, 15), True), ((10, 10), True)):
        lk = Obj("link")
        lk.set("leader", ld)
        lk.set("follower", fo)
        expect(glink, _try(Evaluator(repo=repo, module=glink.module, call_hook=dist_hook()), glink, [mkgrid(), lk]), bad, f"link leader={ld} follower={fo}", ("InvalidLinkError",))
    gj = repo.func("optimize.grid.GridBase.get_junction_from_clamp")
    expect(gj, _try(Evaluator(repo=repo, module=gj.module), gj, [mkgrid(), Sym("unknown-clamp")]), True, "clamp without junction", ("NoJunctionError",))
    # life cycle
    for qn, label in (("mesh.Mesh.grade", "grade before assemble"), ("mesh.Mesh.backport", "backport before assemble")):
        fn = repo.func(qn)
        m = Obj("mesh", cls=repo.cls("mesh.Mesh"))
        m.set("is_assembled", False)
        empty_defaults(repo, repo.cls("mesh.Mesh"), m)
        expect(fn, _try(Evaluator(repo=repo, module=fn.module), fn, [m]), True, label, ("RuntimeError",))
    # chaining
    for qn, exc in (("construct.shapes.cylinder.Cylinder.chain", "CylinderCreationError"), ("construct.shapes.frustum.Frustum.chain", "FrustumCreationError"), ("construct.shapes.rings.ExtrudedRing.chain", "ExtrudedRingCreationError")):
        fn = repo.func(qn)
        for length, bad in ((-1, True), (-0.001, True), (0, False), (2, False)):
            for start_face in (False, True):
                args = [Sym("cls"), Sym("source"), length] + ([1] if "Frustum" in qn else [])
                expect(fn, _try(Evaluator(repo=repo, module=fn.module), fn, args, {"start_face": start_face}), bad, f"length={length}, start_face={start_face}", (exc,))
    ctr = repo.func("construct.shapes.rings.ExtrudedRing.contract")
    for rad, bad in ((0, True), (-1, True)):
        expect(ctr, _try(Evaluator(repo=repo, module=ctr.module), ctr, [Sym("cls"), Sym("source"), rad]), bad, f"inner_radius={rad}", ("ExtrudedRingCreationError",))
    src = Obj("source")
    sk = Obj("sketch")
    sk.set("inner_radius", 2)
    src.set("sketch_1", sk)
    src.set("sketch_2", sk)
    for rad, bad in ((3, True), (2, True), (1, False)):
        ev_c = Evaluator(repo=repo, module=ctr.module)
        ev_c.float_arith = True
        expect(ctr, _try(ev_c, ctr, [Sym("cls"), src, rad]), bad, f"inner_radius={rad} (source inner radius 2)", ("ExtrudedRingCreationError",))
    fill = repo.func("construct.shapes.cylinder.Cylinder.fill")
    for n, bad in ((8, False), (6, True), (12, True)):
        s = Obj("source")
        sk = Obj("sketch")
        sk.set("n_segments", n)
        s.set("sketch_1", sk)
        expect(fill, _try(Evaluator(repo=repo, module=fill.module), fill, [Sym("cls"), s]), bad, f"n_segments={n}", ("CylinderCreationError",))
    fs = repo.func("construct.operations.operation.Operation.from_series")
    for n, bad in ((0, True), (1, True)):
        expect(fs, _try(Evaluator(repo=repo, module=fs.module), fs, [Sym("cls"), [Sym("f")] * n]), bad, f"{n} faces", ("ValueError",))
    gis = repo.func("construct.operations.operation.Operation.get_index_from_side")
    for side, bad in (("top", True), ("bottom", True), ("front", False), ("left", False), ("nonsense", True)):
        expect(gis, _try(Evaluator(repo=repo, module=gis.module), gis, [side]), bad, f"side={side}", ("RuntimeError", "ValueError", "KeyError"))
    return r


def _is_sub(repo: Repo, exc: str, base: str) -> bool:
    try:
        c = repo.cls(exc.split(".")[-1])
    except AnalysisError:
        return False
    return any(b.name == base for b in repo.mro(c))


guard_eval.rule_id = "C20.GUARD-EVAL"


# --------------------------------------------------------------------------------------------
# geometric preconditions whose condition is numpy arithmetic: presence of a guarded raise of the
# documented class; one line of reason each. (function, exception class, what)
GUARD_TABLE: List[Tuple[str, str, str]] = [
    ("construct.flat.face.Face.__init__", "FaceCreationError", "exactly 4 points in 3D / exactly 4 edges / coplanarity on request"),
    ("construct.point.Point.__init__", "PointCreationError", "a point has 3 coordinates"),
    ("construct.array.Array.__init__", "ArrayCreationError", "points in 3D, at least 2 of them"),
    ("items.side.Side.__init__", "SideCreationError", "exactly 8 vertices"),
    ("construct.flat.sketches.annulus.Annulus.__init__", "AnnulusCreationError", "inner radius below outer; radius perpendicular to normal"),
    ("construct.shapes.cylinder.SemiCylinder.__init__", "CylinderCreationError", "radius vector perpendicular to axis"),
    ("construct.shapes.frustum.Frustum.__init__", "FrustumCreationError", "radius vector perpendicular to axis"),
    ("construct.shapes.elbow.Elbow.chain", "ElbowCreationError", "source must end in a Disk"),
    ("construct.shape.LoftedShape.__init__", "ShapeCreationError", "sketches with equal face counts"),
    ("construct.shapes.shell.Shell.chop", "DisconnectedChopError", "no automatic chop of disconnected shells"),
    ("items.edges.edge.Edge.__post_init__", "EdgeCreationError", "edges join Vertex objects"),
    ("items.edges.arcs.angle.arc_from_theta", "ValueError", "sector angle in (0, 2 pi)"),
    ("optimize.links.RotationLink.__init__", "ValueError", "leader not on the rotation axis"),
    ("construct.curves.curve.CurveBase._check_param", "ValueError", "parameter within bounds"),
    ("util.functions.polyline_length", "ValueError", "at least two 3D points"),
    ("grading.relations._validate_length", "ValueError", "positive length"),
]


def guard_table(repo: Repo) -> RuleRun:
    r = RuleRun(PROP, "C20.GUARD-TABLE", floor=16, what="documented geometric preconditions: a guarded raise of the documented class exists (mutators: before state changes)")
    for qn, exc, what in GUARD_TABLE:
        fn = repo.func(qn)  # a vanished site is an analysis error
        raises = []
        for n in walk_shallow(fn.node):
            if isinstance(n, ast.Raise) and n.exc is not None:
                e = n.exc.func if isinstance(n.exc, ast.Call) else n.exc
                nm = ast.unparse(e).split(".")[-1]
                if nm == exc or _is_sub(repo, nm, exc):
                    # must be conditional
                    p = parent(n)
                    if isinstance(p, ast.If):
                        raises.append((n, p))
        r.check(bool(raises), fn, f"{what}: guarded raise of {exc}", f"{fn.qualname} no longer rejects invalid input with {exc} ({what})", fn.node, key=exc)
    # both clauses of two-clause constructors
    for qn, n_min in (("construct.flat.face.Face.__init__", 3), ("construct.array.Array.__init__", 2), ("construct.flat.sketches.annulus.Annulus.__init__", 2), ("construct.shape.LoftedShape.__init__", 2)):
        fn = repo.func(qn)
        n = sum(1 for x in walk_shallow(fn.node) if isinstance(x, ast.Raise))
        r.check(n >= n_min, fn, f"{n} guarded clauses", f"{fn.qualname} has {n} raise statement(s); {n_min} documented preconditions are checked there", fn.node, key="clauses")
    # Annulus: inner radius strictly below outer is at least '>' (documented boundary)
    return r


guard_table.rule_id = "C20.GUARD-TABLE"

def lifecycle_state(repo: Repo) -> RuleRun:
    """'not assembled' is again true after clear(): whatever assemble() records on the mesh, clear() resets, so grade()/backport() on a cleared mesh are refused. Same rule as C12.CLEAR-COMPLETE."""
    from ..report import rebrand
    from . import c12

    return rebrand(c12.clear_complete(repo), PROP, "C20.LIFECYCLE-STATE")


lifecycle_state.rule_id = "C20.LIFECYCLE-STATE"

def _refused_nonpositive(fn: FuncInfo, name: str, before_line: int) -> bool:
    """a raising guard among the statements of the function body, above `before_line`, whose test is true for name = 0 and name = -1
    and false for name = 0.5 (evaluated on the guard's own comparison; guards that mention anything else are not counted)"""
    for st in fn.node.body:
        if not (isinstance(st, ast.If) and st.lineno < before_line and any(isinstance(x, ast.Raise) for x in st.body)):
            continue
        if {x.id for x in ast.walk(st.test) if isinstance(x, ast.Name)} - {name, "TOL", "VSMALL"}:
            continue
        try:
            code = compile(ast.Expression(body=st.test), "<guard>", "eval")
            vals = [bool(eval(code, {"__builtins__": {}}, {name: v, "TOL": 1e-7, "VSMALL": 1e-12})) for v in (0.0, -1.0, 0.5)]  # the guard's own comparison on numbers
        except Exception:  # noqa: BLE001
            continue
        if vals == [True, True, False]:
            return True
    return False


def signed_magnitude(repo: Repo) -> RuleRun:
    """An upper-bound guard 'x > magnitude' (raising) is enforced on one side only when x is a raw, signed number handed in by
    the caller while the quantity that matters is its magnitude (the same parameter multiplies a direction to build a point):
    x = -2 passes 'x > 1' although the built radius |x| = 2 exceeds the bound. The guard must compare a non-negative quantity
    (the built radius / abs(x))."""
    r = RuleRun(PROP, "C20.SIGNED-MAGNITUDE", floor=1, what="raising upper-bound guards against a geometric magnitude compare a non-negative quantity, not a raw signed parameter")
    n_guards = 0
    for fn in sorted(repo.all_functions(), key=lambda f: f.qualname):
        float_params = {a.arg for a in fn.node.args.args if a.annotation is not None and ast.unparse(a.annotation) in ("float", "int", "Optional[float]", "Union[float, int]")}
        for n in ast.walk(fn.node):
            if not (isinstance(n, ast.Compare) and len(n.ops) == 1 and isinstance(n.ops[0], (ast.Gt, ast.GtE, ast.Lt, ast.LtE))):
                continue
            guard = _guards_raise(n, fn)
            if guard is None:
                continue
            lhs, rhs = n.left, n.comparators[0]
            big, small = (lhs, rhs) if isinstance(n.ops[0], (ast.Gt, ast.GtE)) else (rhs, lhs)
            # the difference form of the same guard:  bound - x < tol   is   x > bound - tol
            zero_or_tol = lambda e: _is_tol(e) or (isinstance(e, ast.Constant) and e.value == 0)  # noqa: E731
            if zero_or_tol(big) and isinstance(small, ast.BinOp) and isinstance(small.op, ast.Sub):
                big, small = small.right, small.left  # (A - x) < T  ->  x  vs bound A
            elif zero_or_tol(small) and isinstance(big, ast.BinOp) and isinstance(big.op, ast.Sub):
                big, small = big.left, big.right  # (x - A) > T  ->  x  vs bound A
            env = SignEnv(repo, fn)
            # the bound must be a computed geometric magnitude (norm-derived), not a literal
            if isinstance(small, ast.Constant) or not env.nonneg(small) or _is_tol(small):
                continue
            n_guards += 1
            raw = isinstance(big, ast.Name) and big.id in float_params and not any(isinstance(x, ast.Assign) and any(isinstance(t, ast.Name) and t.id == big.id for t in x.targets) for x in ast.walk(fn.node))
            if raw and _refused_nonpositive(fn, big.id, guard.lineno):
                raw = False  # an earlier guard of the same function refuses the parameter at zero and below: from there on it IS a magnitude
            r.check(
                not raw or env.nonneg(big),
                fn,
                f"'{ast.unparse(n)}' compares a non-negative quantity with the bound",
                f"'{ast.unparse(n)}' guards a raise in {fn.qualname}, but '{ast.unparse(big)}' is the caller's raw signed number while the bound '{ast.unparse(small)}' is a magnitude: a negative "
                f"value whose magnitude exceeds the bound is accepted (e.g. {ast.unparse(big)} = -2 against a bound of 1) - the precondition is enforced on one side only",
                guard,
                key=f"guard:{ast.unparse(big)}>{ast.unparse(small)}",
            )
    r.require(n_guards >= 1, "no raising upper-bound guard against a geometric magnitude found (Annulus.__init__ was the confirmed instance)")
    return r


signed_magnitude.rule_id = "C20.SIGNED-MAGNITUDE"

STRICT_WORDS = re.compile(r"must be (strictly )?(larger|smaller|greater|less|bigger|lower|higher|positive|negative)\b", re.I)


def message_strictness(repo: Repo) -> RuleRun:
    """A guard states its own precondition in the message it raises with. Where the message demands a STRICT relation
    ('outer radius must be larger than inner', 'must be smaller than source's', 'must be positive') the boundary itself
    violates the precondition, so the rejecting condition must be true at equality: the condition is evaluated with both
    sides equal (resp. with the quantity at zero). A guard that lets the boundary through builds the degenerate entity the
    message exists to prevent (a ring of zero thickness)."""
    r = RuleRun(PROP, "C20.MESSAGE-STRICTNESS", floor=4, what="guards whose message demands a strict relation ('must be larger / smaller / positive') reject the boundary case (equality) as well")
    nth: Dict[str, int] = {}
    for fn in sorted(repo.all_functions(), key=lambda f: f.qualname):
        for n in ast.walk(fn.node):
            if not isinstance(n, ast.If):
                continue
            raises = [x for x in n.body if isinstance(x, ast.Raise) and x.exc is not None]
            if not raises:
                continue
            msg = " ".join(c.value for c in ast.walk(raises[0].exc) if isinstance(c, ast.Constant) and isinstance(c.value, str))
            if not STRICT_WORDS.search(msg):
                continue
            verdict = _rejects_at_boundary(n.test)
            key = f"strict#{nth.setdefault(fn.qualname, 0)}"
            nth[fn.qualname] += 1
            if verdict is None:
                raise AnalysisError(f"{fn.qualname}: guard '{ast.unparse(n.test)[:80]}' with the strict message '{msg[:60]}' is not a comparison the rule can evaluate at its boundary")
            r.check(
                verdict,
                fn,
                f"'{ast.unparse(n.test)[:60]}' rejects the boundary ('{msg[:50]}')",
                f"{fn.qualname}: the guard '{ast.unparse(n.test)[:80]}' lets the boundary case through although its own message demands a strict relation ('{msg[:80]}'): "
                "with both quantities equal the degenerate entity (zero thickness / zero size) is built without an error",
                n,
                key=key,
            )
    return r


def _lin(e: ast.expr) -> Optional[Tuple[int, int]]:
    """(multiples of the compared quantity q, multiples of a small positive tolerance eps) - every named quantity counts as q"""
    if _is_tol(e):
        return (0, 1)
    if isinstance(e, ast.Constant):
        return (0, 0) if e.value == 0 and not isinstance(e.value, bool) else None
    if isinstance(e, (ast.Name, ast.Attribute)):
        return (1, 0)
    if isinstance(e, ast.UnaryOp) and isinstance(e.op, (ast.USub, ast.UAdd)):
        v = _lin(e.operand)
        return None if v is None else ((-v[0], -v[1]) if isinstance(e.op, ast.USub) else v)
    if isinstance(e, ast.BinOp) and isinstance(e.op, (ast.Add, ast.Sub)):
        a, b = _lin(e.left), _lin(e.right)
        if a is None or b is None:
            return None
        sg = 1 if isinstance(e.op, ast.Add) else -1
        return (a[0] + sg * b[0], a[1] + sg * b[1])
    if isinstance(e, ast.Call):
        nm = (attr_chain(e.func) or "").split(".")[-1]
        if nm in ("abs", "fabs") and len(e.args) == 1:
            v = _lin(e.args[0])
            if v is not None and v[0] == 0:
                return (0, abs(v[1]))
            return None
        return (1, 0)  # a measured quantity (norm(...), len(...), a property read through a call)
    return None


def _is_inf(e: ast.expr) -> bool:
    if isinstance(e, ast.Attribute) and e.attr in ("inf", "infty", "Inf") and (attr_chain(e.value) or "") in ("np", "numpy", "math"):
        return True
    return isinstance(e, ast.Call) and (attr_chain(e.func) or "") == "float" and len(e.args) == 1 and isinstance(e.args[0], ast.Constant) and str(e.args[0].value).lower() in ("inf", "+inf", "infinity")


def _rejects_at_boundary(test: ast.expr) -> Optional[bool]:
    """Value of a rejecting condition at the boundary of the relation it guards: every compared quantity equal (q), or - when
    one quantity is compared with zero / a tolerance - that quantity at zero. Sides are linear forms in q and a small positive
    tolerance eps, so 'a - b < TOL', 'a + TOL > b', 'not b > a', 'x <= 0' are all understood. None if the shape is not."""
    if isinstance(test, ast.UnaryOp) and isinstance(test.op, ast.Not):
        v = _rejects_at_boundary(test.operand)
        return None if v is None else not v
    if isinstance(test, ast.BoolOp):
        vals = [_rejects_at_boundary(v) for v in test.values]
        if any(v is None for v in vals):
            return None
        return any(vals) if isinstance(test.op, ast.Or) else all(vals)
    if isinstance(test, ast.Compare) and len(test.ops) > 1:
        # a chain is the conjunction of its links: 'not 0 < x < np.inf'
        terms = [test.left, *test.comparators]
        vals = [_rejects_at_boundary(ast.Compare(left=terms[i], ops=[op], comparators=[terms[i + 1]])) for i, op in enumerate(test.ops)]
        return None if any(v is None for v in vals) else all(vals)
    if isinstance(test, ast.Compare) and len(test.ops) == 1 and (_is_inf(test.left) or _is_inf(test.comparators[0])):
        # a finite quantity against infinity: not the boundary the message speaks of, the link simply holds (or simply does not)
        if _is_inf(test.left) and _is_inf(test.comparators[0]):
            return None
        upper = _is_inf(test.comparators[0])
        return {ast.Lt: upper, ast.LtE: upper, ast.Gt: not upper, ast.GtE: not upper, ast.Eq: False, ast.NotEq: True}.get(type(test.ops[0]))
    if isinstance(test, ast.Compare) and len(test.ops) == 1:
        a, b = _lin(test.left), _lin(test.comparators[0])
        if a is None or b is None:
            return None
        dq, de = a[0] - b[0], a[1] - b[1]
        if dq != 0 and not (a[0] == 0 or b[0] == 0):
            return None  # quantities do not cancel and neither side is a pure bound
        sign = (de > 0) - (de < 0)  # at the boundary q cancels (or is 0): the difference is de * eps
        op = test.ops[0]
        return {ast.Lt: sign < 0, ast.LtE: sign <= 0, ast.Gt: sign > 0, ast.GtE: sign >= 0, ast.Eq: sign == 0, ast.NotEq: sign != 0}.get(type(op))
    return None


message_strictness.rule_id = "C20.MESSAGE-STRICTNESS"

def perpendicular_scale_free(repo: Repo) -> RuleRun:
    from ..dims import perpendicular_guards_rule

    # strict: the sibling shapes must agree - every perpendicularity guard tests the COSINE (degree 0), so that the same three points
    # are refused by the ring and by the cylinder; a length (one vector normalised) against the tolerance accepts any lean of a
    # millimetre-sized ring
    return perpendicular_guards_rule(repo, PROP, "C20.PERPENDICULAR-SCALE-FREE", strict=True, example="ExtrudedRing([0,0,0],[1e-6,0,0],[5e-8,5e-7,0], 2e-7), radius leaning 5.7 degrees, accepted where Cylinder refuses the same three points")


perpendicular_scale_free.rule_id = "C20.PERPENDICULAR-SCALE-FREE"


def coplanar_scale_free(repo: Repo) -> RuleRun:
    """'[Faces whose four points are] not coplanar [are rejected when the check is asked for]' - for a face of any size: the guard that
    raises '... not coplanar' compares the triple product of three edge vectors (a volume, degree 3 in the size of the face) with
    something of the same degree, not with the plain tolerance."""
    from ..dims import perpendicular_guards_rule

    return perpendicular_guards_rule(
        repo, PROP, "C20.COPLANAR-SCALE-FREE", floor=1, words=("coplanar",),
        example="Face([[0,0,0],[s,0,0],[s,s,s],[0,s,0]], check_coplanar=True) with s = 1e-3, a corner lifted by 45 degrees",
    )


coplanar_scale_free.rule_id = "C20.COPLANAR-SCALE-FREE"



def signed_factor(repo: Repo) -> RuleRun:
    """'inner radius not below outer' is a range, 0 < inner < outer, and 'a precondition stated as a ... range is enforced on both
    sides of it': the ring sketch places its inner points at centre + unit * inner_radius, so the caller's raw number is a SIGNED
    factor - a negative one puts the inner points on the other side of the axis (every face then crosses the axis) while the radii
    the existing guard compares are norms and hide the sign; zero collapses the inner edge onto the axis. A float parameter that
    multiplies a unit vector to place a point must be refused when it is zero or negative: the raising guards of the constructor
    are evaluated with the parameter at 0 and at -1."""
    r = RuleRun(PROP, "C20.SIGNED-FACTOR", floor=1, what="a radius parameter used as a signed factor of a unit vector (centre + unit * radius) is refused when zero or negative")
    n = 0
    for qn in ("construct.flat.sketches.annulus.Annulus.__init__",):
        fn = repo.func(qn)
        floats = {a.arg for a in fn.node.args.args if a.annotation is not None and ast.unparse(a.annotation) in ("float", "int")}
        for prm in sorted(floats):
            used = [
                b
                for b in ast.walk(fn.node)
                if isinstance(b, ast.BinOp) and isinstance(b.op, ast.Mult) and any(isinstance(x, ast.Name) and x.id == prm for x in (b.left, b.right)) and any(isinstance(x, ast.Call) and (attr_chain(x.func) or "").split(".")[-1] == "unit_vector" for x in (b.left, b.right))
            ]
            if not used:
                continue
            n += 1

            def truth(test: ast.expr, value: float) -> Optional[bool]:
                try:
                    code = compile(ast.Expression(body=test), "<guard>", "eval")
                    return bool(eval(code, {"__builtins__": {}}, {prm: value, "TOL": 1e-7, "VSMALL": 1e-12}))  # the guard's own comparison on a number
                except Exception:  # noqa: BLE001 - other names in the test: not a guard on this parameter alone
                    return None

            guards = [g for g in ast.walk(fn.node) if isinstance(g, ast.If) and any(isinstance(x, ast.Raise) for x in g.body) and any(isinstance(x, ast.Name) and x.id == prm for x in ast.walk(g.test))]
            ok = any(truth(g.test, 0.0) is True and truth(g.test, -1.0) is True and truth(g.test, 0.5) is False for g in guards)
            r.check(
                ok,
                fn,
                f"'{prm}' (factor of a unit vector in '{ast.unparse(used[0])[:50]}') is refused at 0 and below",
                f"{fn.qualname} places a point at '{ast.unparse(used[0])[:70]}' - the caller's '{prm}' is a signed factor - but no guard refuses {prm} <= 0: ExtrudedRing([0,0,0],[0,0,1],[1,0,0], -0.5) "
                "is built with its inner points on the far side of the axis (every face crosses it), inner radius 0 collapses the inner edge; the existing guard compares norms, which hide the sign",
                used[0],
                key=f"factor:{prm}",
            )
    r.require(n >= 1, "Annulus.__init__ no longer scales a unit vector by a float parameter (re-written?)")
    return r


signed_factor.rule_id = "C20.SIGNED-FACTOR"


RULES = [one_sided_tol, one_sided_range, guard_eval, guard_table, lifecycle_state, signed_magnitude, message_strictness, perpendicular_scale_free, coplanar_scale_free, signed_factor]

"""C13 - optimisation never worsens quality; only clamped vertices move, on constraints."""

from __future__ import annotations

import ast
from typing import List, Optional, Set

from ..cfg import CFG, Node
from ..model import AnalysisError, FuncInfo, Repo, attr_chain, enclosing_function, parent, walk_shallow
from ..peval import NO_MATCH, Evaluator, NotEvaluable, Obj, Raised, Sym
from ..report import RuleRun
from ..util import Reach, fmt_path, node_calls
from .c10 import _run

PROP = "C13"
TITLE = "Optimization never worsens quality; only clamped vertices move, on constraints"
DECIDES = (
    "in optimize_clamp a copy of clamp.params is taken before the minimiser and, on the non-improvement path and on every "
    "exception-handler path, clamp.update_params(snapshot) and then grid.update(junction.index, clamp.position) run before the "
    "exit; the rollback test has the right sign (C13.ROLLBACK); _get_sensitivity restores params and grid on every normal exit "
    "(C13.PROBE-RESTORE); the only stores into a grid's point array are GridBase.update (the given index plus link followers, "
    "abstractly evaluated) and SmootherBase.smooth, and GridBase.update is only called with the clamped junction's index "
    "(C13.WHO-WRITES-POINTS); every normal exit of optimize passes backport() (C13.BACKPORT); the warnings filter installed by "
    "CellBase.quality is released on every exit (C13.WARNING-FILTER)."
    ' lengths in the optimisation package are taken of vectors, not positions (C13.AFFINE-KINDS); link transforms as linear forms (C13.LINK-RELATION = C17.LINK-ALGEBRA).'
    ' Clamp and link constructors keep private copies of the coordinates they capture (C13.OWNS-GEOMETRY); the angle handed to functions.rotate is dimensionless (C13.ANGLE-DIMENSION).'
    " The rollback decision compares self.grid.quality measured before the minimiser with self.grid.quality re-measured after it - not the minimiser's own best value (part of C13.ROLLBACK); arrays stored into in place are created as float arrays (C13.FLOAT-STORES); the copy-back moves every vertex / face to the grid point of its index (C13.BACKPORT-TABLE)."
    ' GridBase.quality is the sum over cells (C13.GRID-QUALITY); SymmetryLink gives the exact mirror image on either side of the plane (C13.SYMMETRY-EXACT); the reflection matrix (C13.MIRROR-MATRIX).'
)
NOT_DECIDED = "'never worsens', constraint satisfaction and bounds: numerical minimisation."
ASSUMPTIONS = ["copy.copy / np.copy / np.array / list() of clamp.params is a snapshot independent of later update_params calls"]

COPIERS = {"copy.copy", "copy.deepcopy", "np.copy", "numpy.copy", "np.array", "numpy.array", "list", "tuple"}


def _snapshot_vars(fn: FuncInfo) -> List[ast.Assign]:
    out = []
    for n in walk_shallow(fn.node):
        if isinstance(n, ast.Assign) and isinstance(n.targets[0], ast.Name) and isinstance(n.value, ast.Attribute) and n.value.attr == "params":
            out.append(n)  # a plain alias of the parameters: recognised as the snapshot, judged by _is_copy
        if isinstance(n, ast.Assign) and isinstance(n.targets[0], ast.Name) and isinstance(n.value, ast.Call):
            nm = attr_chain(n.value.func) or ""
            if n.value.args and (attr_chain(n.value.args[0]) or "").endswith(".params"):
                out.append(n)
            elif isinstance(n.value.func, ast.Attribute) and n.value.func.attr == "copy" and (attr_chain(n.value.func.value) or "").endswith(".params"):
                out.append(n)
    return out


def _is_copy(assign: ast.Assign) -> bool:
    v = assign.value
    if not isinstance(v, ast.Call):
        return False
    nm = attr_chain(v.func) or ""
    return nm in COPIERS or (isinstance(v.func, ast.Attribute) and v.func.attr == "copy")


def _restore_preds(snap: str, clamp: str = "clamp"):
    def is_params(n: Node) -> bool:
        return any(isinstance(c.func, ast.Attribute) and c.func.attr == "update_params" and c.args and ast.unparse(c.args[0]) == snap for c in node_calls(n))

    def is_grid(n: Node) -> bool:
        return any(
            isinstance(c.func, ast.Attribute) and c.func.attr == "update" and (attr_chain(c.func.value) or "").endswith("grid") and len(c.args) == 2 and ast.unparse(c.args[1]).endswith(".position")
            for c in node_calls(n)
        )

    return is_params, is_grid


def rollback(repo: Repo) -> RuleRun:
    r = RuleRun(PROP, "C13.ROLLBACK", floor=6, what="snapshot -> minimise -> restore on the non-improvement path and on every handler path")
    fn = repo.func("optimize.optimizer.OptimizerBase.optimize_clamp")
    g = CFG(fn.node)
    snaps = _snapshot_vars(fn)
    r.require(len(snaps) == 1, "optimize_clamp: snapshot of clamp.params not found")
    snap = snaps[0].targets[0].id
    r.check(_is_copy(snaps[0]), fn, f"{snap} is a copy of clamp.params", f"'{ast.unparse(snaps[0])}' aliases clamp.params instead of copying it: after the minimiser has changed the parameters there is nothing to roll back to", snaps[0], key="snapshot-is-copy")
    snap_nodes = g.nodes_of(snaps[0])
    mins = [n for n in g.stmt_nodes() if any((attr_chain(c.func) or "").endswith("optimize.minimize") or (attr_chain(c.func) or "") == "minimize" for c in node_calls(n))]
    r.require(len(mins) == 1, "optimize_clamp: scipy.optimize.minimize call not found")
    r.check(all(g.dominates(s, mins[0]) for s in snap_nodes), fn, "snapshot dominates the minimiser", "the snapshot of clamp.params is not taken on every path before the minimiser runs", snaps[0], key="snapshot-before-minimise")
    is_params, is_grid = _restore_preds(snap)

    def check_from(start: Node, label: str, node: ast.AST):
        ok1, p1 = g.must_pass(start, g.exit_return, is_params)
        restore_nodes = [n for n in g.stmt_nodes() if is_params(n) and n.id in (g.reach([start]) | {start.id})]
        ok2 = True
        p2 = None
        for rn in restore_nodes:
            o, p = g.must_pass(rn, g.exit_return, is_grid)
            if not o:
                ok2, p2 = False, p
        r.check(ok1, fn, f"{label}: clamp.update_params({snap}) before exit", f"{label}: a path leaves optimize_clamp without restoring the clamp parameters: {fmt_path(p1)} - the clamp stays at the rejected position", node, key=f"{label}:params")
        r.check(ok2 and bool(restore_nodes), fn, f"{label}: grid.update(...) after the parameter restore", f"{label}: the grid point is not moved back after the parameters were restored: {fmt_path(p2)} - grid and clamp disagree (half-applied step)", node, key=f"{label}:grid")

    # non-improvement branch
    tests = [n for n in g.stmt_nodes() if n.kind == "if" and "improvement" in ast.unparse(n.stmt.test)]
    r.require(len(tests) == 1, "optimize_clamp: 'if reporter.improvement <= 0' not found")
    t = tests[0].stmt.test
    # which branch restores? it must be taken for improvement <= 0 and only then: the test is evaluated for -1, 0, +1
    from ..peval import Evaluator as _Ev, NotEvaluable as _NE

    imp_attr = [x for x in ast.walk(t) if isinstance(x, ast.Attribute) and x.attr == "improvement"]
    r.require(len(imp_attr) == 1 and attr_chain(imp_attr[0]) is not None, "rollback test does not read <reporter>.improvement")
    chain = attr_chain(imp_attr[0])
    restores_in_body = any(is_params(n_) for st_ in tests[0].stmt.body for n_ in g.stmt_nodes() if any(x is n_.stmt for x in ast.walk(st_)))
    truth = {}
    for val in (-1, 0, 1):
        try:
            ev_ = _Ev(bind={chain: val})
            truth[val] = bool(ev_.truth(ev_.eval(t), t))
        except _NE as err:
            raise AnalysisError(f"optimize_clamp: rollback test '{ast.unparse(t)}' not evaluable: {err}") from err
    takes_restore = {v: (tv if restores_in_body else not tv) for v, tv in truth.items()}
    sign_ok = takes_restore[-1] and not takes_restore[1]  # improvement == 0: either is fine (the quality is the same)
    r.check(sign_ok, fn, f"rollback when the quality got worse, none when it improved ('{ast.unparse(t)}')", f"the rollback test is '{ast.unparse(t)}' (restore branch taken for improvement -1/0/+1: {takes_restore}): it must fire when the grid quality got worse (improvement < 0) and must not when it improved", tests[0].stmt, key="rollback-sign")
    # improvement = initial grid quality - final grid quality (abstract run of the property)
    imp = repo.func("optimize.iteration.ClampOptimizationData.improvement")
    from ..peval import Obj as _Obj

    def _imp(gi, gf):
        d_ = _Obj("data", cls=imp.cls)
        for nm_, v_ in (("grid_initial", gi), ("grid_final", gf), ("junction_initial", 1000), ("junction_final", 1), ("rolled_back", False), ("skipped", False)):
            d_.set(nm_, v_)
        try:
            ev2 = _Ev(repo=repo, module=imp.module)
            ev2.float_arith = True
            return ev2.call_funcinfo(imp, [d_])
        except _NE as err:
            raise AnalysisError(f"ClampOptimizationData.improvement not evaluable: {err}") from err

    vals = [_imp(10, 4), _imp(4, 10), _imp(7, 7)]
    imp_ok = vals[0] is not None and vals[1] is not None and vals[0] > 0 and vals[1] < 0 and vals[2] <= 0
    r.check(imp_ok, imp, "improvement > 0 iff the grid quality value went down", f"ClampOptimizationData.improvement gives {vals} for grid quality 10->4, 4->10, 7->7 (junction quality 1000->1 in all three): it must be positive exactly when the GRID quality improved", imp.node, key="improvement-def")
    body_first = g.nodes_of(tests[0].stmt.body[0])
    r.require(bool(body_first), "rollback branch empty")
    check_from(body_first[0], "no-improvement", tests[0].stmt)
    # grid_final must be measured after the minimiser and before the test
    fin = [n for n in g.stmt_nodes() if n.kind == "stmt" and isinstance(n.stmt, ast.Assign) and ast.unparse(n.stmt.targets[0]).endswith("grid_final")]
    def measured_on_grid(e: ast.expr, depth: int = 0) -> bool:
        """the value IS <self.grid>.quality, re-read from the grid as it stands - on every alternative of a conditional; the
        minimiser's own best value belongs to another point than the one the grid is left at"""
        if isinstance(e, ast.IfExp):
            return measured_on_grid(e.body, depth) and measured_on_grid(e.orelse, depth)
        if isinstance(e, ast.Name) and depth < 4:
            defs = [n.value for n in ast.walk(fn.node) if isinstance(n, ast.Assign) and len(n.targets) == 1 and isinstance(n.targets[0], ast.Name) and n.targets[0].id == e.id]
            return bool(defs) and all(measured_on_grid(d, depth + 1) for d in defs)
        if isinstance(e, ast.Call) and (attr_chain(e.func) or "") in ("float", "np.float64") and len(e.args) == 1:
            return measured_on_grid(e.args[0], depth)
        return (attr_chain(e) or "") == "self.grid.quality"

    ok = bool(fin) and all(g.dominates(mins[0], f_) and g.dominates(f_, tests[0]) for f_ in fin) and all(measured_on_grid(f_.stmt.value) for f_ in fin)
    r.check(
        ok,
        fn,
        "final grid quality re-measured on the grid between minimiser and test",
        "reporter.grid_final is not self.grid.quality re-measured after the minimiser and before the rollback test"
        + (f" ('{ast.unparse(fin[0].stmt)[:90]}')" if fin else "")
        + ": the minimiser's result belongs to its best point, the grid is left at the LAST point it tried - the rollback decision must be made on the state that is kept",
        tests[0].stmt,
        key="grid_final",
    )
    # ... and the initial value it is compared with is the grid's quality measured before the minimiser
    ctor = [c for c in ast.walk(fn.node) if isinstance(c, ast.Call) and (attr_chain(c.func) or "").split(".")[-1] == imp.cls.name]
    r.require(len(ctor) == 1, f"optimize_clamp: one {imp.cls.name}(...) expected")
    fields = [st.target.id for st in imp.cls.node.body if isinstance(st, ast.AnnAssign) and isinstance(st.target, ast.Name)]
    r.require("grid_initial" in fields, f"{imp.cls.name}.grid_initial field vanished")
    gi_arg = None
    for k in ctor[0].keywords:
        if k.arg == "grid_initial":
            gi_arg = k.value
    pos = fields.index("grid_initial")
    if gi_arg is None and pos < len(ctor[0].args):
        gi_arg = ctor[0].args[pos]
    ctor_nodes = [n for n in g.stmt_nodes() if any(c is ctor[0] for c in node_calls(n))]
    ok_i = gi_arg is not None and measured_on_grid(gi_arg) and bool(ctor_nodes) and all(g.dominates(cn, mins[0]) for cn in ctor_nodes)
    r.check(ok_i, fn, "initial grid quality measured on the grid before the minimiser", f"the initial value of the rollback comparison is '{ast.unparse(gi_arg) if gi_arg is not None else 'missing'}', not self.grid.quality measured before the minimiser runs", ctor[0], key="grid_initial")
    # handlers
    handlers = [n for n in g.nodes if n.kind == "except"]
    r.require(len(handlers) >= 1, "optimize_clamp: exception handler for degenerate cells not found")
    for h in handlers:
        check_from(h, f"except {ast.unparse(h.stmt.type) if h.stmt.type is not None else ''}".strip(), h.stmt)
    # the minimiser is inside the try
    r.check(any(h.id in g.succ[mins[0].id] for h in handlers), fn, "minimiser runs inside the try", "scipy.optimize.minimize is called outside the try block: a degenerate cell aborts the optimisation half-applied", mins[0].stmt, key="minimise-in-try")
    # the minimiser is confined to the clamp's bounds, whatever the method
    mc = [c for c in node_calls(mins[0]) if (attr_chain(c.func) or "").endswith("minimize")][0]
    bkw = [k for k in mc.keywords if k.arg == "bounds"]
    ok_b = len(bkw) == 1 and isinstance(bkw[0].value, ast.Attribute) and bkw[0].value.attr == "bounds" and ast.unparse(bkw[0].value.value) == "clamp"
    r.check(ok_b, fn, "minimize(..., bounds=clamp.bounds)", f"the minimiser is called with bounds={ast.unparse(bkw[0].value) if bkw else 'nothing'}: for some methods the clamped vertex can leave the bounds the user gave", mc, key="bounds")
    mkw = [k for k in mc.keywords if k.arg == "method"]
    r.check(len(mkw) == 1 and ast.unparse(mkw[0].value) == "method", fn, "the requested method is used", "the minimisation method requested by the caller is not handed to scipy", mc, key="method")
    # objective moves the clamped junction only
    nested = [n for n in ast.walk(fn.node) if isinstance(n, ast.FunctionDef) and n is not fn.node]
    r.require(len(nested) == 1, "optimize_clamp: objective closure not found")
    obj = nested[0]
    go = CFG(obj)
    xparam = obj.args.args[0].arg if obj.args.args else None
    r.require(xparam is not None, "objective closure takes no parameter vector")
    is_up = lambda n: any(isinstance(c.func, ast.Attribute) and c.func.attr == "update_params" and c.args and ast.unparse(c.args[0]) == xparam for c in node_calls(n))  # noqa: E731
    _, is_grid2 = _restore_preds(snap)
    ok1, p1 = go.must_pass(go.entry, go.exit_return, is_up)
    ok2 = True
    for un in [n for n in go.stmt_nodes() if is_up(n)]:
        o, _pp = go.must_pass(un, go.exit_return, lambda n: is_grid2(n))
        ok2 = ok2 and (o or is_grid2(un))
    rets_o = [n for n in ast.walk(obj) if isinstance(n, ast.Return)]
    ret_ok = bool(rets_o) and all(x.value is not None and ("grid.update" in ast.unparse(x.value) or "quality" in ast.unparse(x.value) or isinstance(x.value, ast.Name)) for x in rets_o)
    r.check(ok1 and ok2 and ret_ok, fn, "objective applies the trial parameters to clamp and grid", "the objective handed to the minimiser does not apply the trial parameters to the clamp and then move the junction's grid point to clamp.position (or does not return the resulting quality)", obj, key="objective")
    return r


rollback.rule_id = "C13.ROLLBACK"


def probe_restore(repo: Repo) -> RuleRun:
    r = RuleRun(PROP, "C13.PROBE-RESTORE", floor=8, what="_get_sensitivity restores params and grid on every normal exit and probes inside the clamp's bounds")
    fn = repo.func("optimize.optimizer.OptimizerBase._get_sensitivity")
    g = CFG(fn.node)
    snaps = _snapshot_vars(fn)
    r.require(len(snaps) == 1, "_get_sensitivity: snapshot of clamp.params not found")
    snap = snaps[0].targets[0].id
    r.check(_is_copy(snaps[0]), fn, "snapshot is a copy", f"'{ast.unparse(snaps[0])}' aliases clamp.params", snaps[0], key="snapshot-is-copy")
    probes = [n for n in g.stmt_nodes() if any((attr_chain(c.func) or "").endswith("approx_fprime") for c in node_calls(n))]
    r.require(len(probes) == 1, "_get_sensitivity: approx_fprime call not found")
    is_params, is_grid = _restore_preds(snap)
    ok1, p1 = g.must_pass(probes[0], g.exit_return, is_params)
    r.check(ok1 and all(g.dominates(s, probes[0]) for s in g.nodes_of(snaps[0])), fn, "parameters restored after the probe", f"_get_sensitivity leaves the probed parameters in place: {fmt_path(p1)}", probes[0].stmt, key="params")
    ok2 = True
    p2 = None
    for rn in [n for n in g.stmt_nodes() if is_params(n)]:
        o, p = g.must_pass(rn, g.exit_return, is_grid)
        if not o:
            ok2, p2 = False, p
    r.check(ok2, fn, "grid restored after the parameters", f"_get_sensitivity does not move the grid point back: {fmt_path(p2)}", probes[0].stmt, key="grid")
    # the finite-difference probe stays inside the clamp's bounds: a clamp that rests at the end of its curve / line is probed
    # backwards (a parameter beyond the bound is refused by the curve with ValueError, which escapes optimize() half-way)
    from ..peval import Evaluator as _Ev, NotEvaluable as _NE, Obj as _Obj, Raised as _Raised

    for label, params, bounds in (
        ("at the upper bound", [0.45], [[0.3, 0.45]]),
        ("at the lower bound", [0.3], [[0.3, 0.45]]),
        ("inside the bounds", [0.4], [[0.3, 0.45]]),
        ("two parameters, second at its upper bound", [0.0, 1.0], [[-1.0, 1.0], [0.0, 1.0]]),
        ("no bounds", [0.4], None),
        ("open upper bound", [5.0], [[0.0, None]]),
    ):
        clamp = _Obj("clamp")
        clamp.set("params", list(params))
        clamp.set("bounds", bounds)
        clamp.set("position", Sym("position"))
        this = _Obj("optimizer", cls=fn.cls)
        grid = _Obj("grid")
        this.set("grid", grid)
        seen = {}

        def hook(ev, call, name, seen=seen):
            nm = (name or "").split(".")[-1]
            if nm == "approx_fprime":
                x0 = ev.eval(call.args[0])
                eps = None
                for kw in call.keywords:
                    if kw.arg == "epsilon":
                        eps = ev.eval(kw.value)
                if eps is None and len(call.args) > 2:
                    eps = ev.eval(call.args[2])
                seen["x0"], seen["eps"] = x0, eps
                return [0.0 for _ in x0]
            if nm == "full" and len(call.args) == 2:
                n_, v_ = ev.eval(call.args[0]), ev.eval(call.args[1])
                return [v_ for _ in range(n_)]
            if nm in ("asarray", "array", "copy") and call.args:
                v_ = ev.eval(call.args[0])
                return list(v_) if isinstance(v_, list) else v_
            if nm == "norm":
                return Sym("norm")
            if nm in ("get_junction_from_clamp",):
                return _Obj("junction", index=0, quality=Sym("q"))
            if nm in ("update_params", "update"):
                return None
            return NO_MATCH

        ev = _Ev(repo=repo, module=fn.module, call_hook=hook)
        ev.float_arith = True
        try:
            ev.call_funcinfo(fn, [this, clamp])
        except (_Raised, _NE) as err:
            raise AnalysisError(f"_get_sensitivity not evaluable on the probe model ({label}): {err}") from err
        r.require("eps" in seen, "_get_sensitivity does not reach approx_fprime on the probe model")
        eps = seen["eps"]
        steps = list(eps) if isinstance(eps, list) else [eps for _ in params]
        outside = []
        for i, (x, h) in enumerate(zip(params, steps)):
            if not isinstance(h, (int, float)):
                raise AnalysisError(f"_get_sensitivity: probe step {h!r} is not a number on the model")
            lo, hi = (bounds[i] if bounds is not None else (None, None))
            if (hi is not None and x + h > hi + 1e-15) or (lo is not None and x + h < lo - 1e-15):
                outside.append((i, x, h, (lo, hi)))
        r.check(not outside, fn, f"probe {label}: inside the bounds", f"_get_sensitivity probes a clamp {label} (params {params}, bounds {bounds}) at " + ", ".join(f"param {i}: {x} + {h:g} outside {b}" for i, x, h, b in outside) + ": the curve refuses the parameter with ValueError, which leaves optimize() before anything is copied back (sketch / mesh differ from the optimizer's positions, clamp.params left outside the bounds)", probes[0].stmt, key=f"probe:{label}")
    return r


probe_restore.rule_id = "C13.PROBE-RESTORE"


def who_writes_points(repo: Repo) -> RuleRun:
    r = RuleRun(PROP, "C13.WHO-WRITES-POINTS", floor=8, what="ownership of grid.points; GridBase.update evaluated abstractly; its call sites")
    allowed = {"optimize.grid.GridBase.update", "optimize.smoother.SmootherBase.smooth"}
    # a private helper of the grid that is called from nowhere but an allowed writer (or itself) writes on that writer's behalf
    opt_fns = [f_ for f_ in repo.all_functions() if f_.module.name.startswith("classy_blocks.optimize")]
    changed = True
    while changed:
        changed = False
        for cand in opt_fns:
            if cand.qualname in allowed or not cand.name.startswith("_") or cand.name.startswith("__") or cand.cls is None or cand.cls.name != "GridBase":
                continue
            sites = [(f_, c_) for f_ in opt_fns for c_ in ast.walk(f_.node) if isinstance(c_, ast.Call) and isinstance(c_.func, ast.Attribute) and c_.func.attr == cand.name]
            if sites and all(f_.qualname in allowed or f_ is cand for f_, _ in sites):
                allowed.add(cand.qualname)
                changed = True
    n_stores = 0
    for fn in repo.all_functions():
        if not fn.module.name.startswith("classy_blocks.optimize"):
            continue
        for n in ast.walk(fn.node):
            tgts = []
            if isinstance(n, ast.Assign):
                tgts = n.targets
            elif isinstance(n, ast.AugAssign):
                tgts = [n.target]
            for t in tgts:
                base = t
                while isinstance(base, ast.Subscript):
                    base = base.value
                ch = attr_chain(base) or ""
                if t is not base and (ch.endswith("grid.points") or ch == "self.points" or ch.endswith(".grid_points")):
                    if fn.cls is not None and fn.cls.name in ("Junction",) and ch == "self.points":
                        pass
                    n_stores += 1
                    r.check(fn.qualname in allowed, fn, f"store into {ch}[...]", f"{fn.qualname} writes into the optimiser's point array ({ast.unparse(t)}): only GridBase.update (clamped junction + link followers) and SmootherBase.smooth may move points", n, key=f"store:{ch}")
            if isinstance(n, ast.Call) and (attr_chain(n.func) or "") in ("np.copyto", "np.put", "numpy.copyto") and n.args and (attr_chain(n.args[0]) or "").endswith("points"):
                r.bad(fn, f"{fn.qualname} overwrites the point array through {attr_chain(n.func)}", n, key="store:bulk")
    r.require(n_stores >= 3, f"only {n_stores} stores into grid point arrays found")

    # abstract evaluation of GridBase.update
    upd = repo.func("optimize.grid.GridBase.update")
    for with_links in (False, True, 2):
        grid = Obj("grid", cls=repo.cls("optimize.grid.GridBase"))
        pts = [Sym(f"x{i}") for i in range(5)]
        grid.set("points", list(pts))
        grid.set("quality", Sym("grid-quality"))
        js = []
        for i in range(5):
            j = Obj(f"j{i}")
            j.set("links", [])
            j.set("quality", Sym(f"q{i}"))
            j.set("cells", set())
            j.set("index", i)
            js.append(j)
        grid.set("cells", [])
        link = Obj("link")
        link.set("leader", Sym("old-leader"))
        link.set("follower", Sym("old-follower"))
        link2 = Obj("link2")
        link2.set("leader", Sym("old-leader2"))
        link2.set("follower", Sym("old-follower2"))
        if with_links:
            il = Obj("indexed_link")
            il.set("link", link)
            il.set("follower_index", 3)
            js[1].set("links", [il])
        if with_links == 2:
            il2 = Obj("indexed_link2")
            il2.set("link", link2)
            il2.set("follower_index", 4)
            js[1].get("links").append(il2)
        grid.set("junctions", js)

        def hook(ev, call: ast.Call, name, link=link, link2=link2):
            if isinstance(call.func, ast.Attribute) and call.func.attr == "update" and len(call.args) == 0:
                recv = ev.eval(call.func.value)
                if recv is link or recv is link2:
                    recv.set("follower", ("moved-with", recv.get("leader")))
                    return None
            return NO_MATCH

        res = _run(Evaluator(repo=repo, module=upd.module, call_hook=hook), upd, [grid, 1, Sym("newpos")])
        after = grid.get("points")
        want = list(pts)
        want[1] = Sym("newpos")
        if with_links:
            want[3] = ("moved-with", Sym("newpos"))
        if with_links == 2:
            want[4] = ("moved-with", Sym("newpos"))
        r.check(after == want, upd, f"update(1, p) with {int(with_links)} link(s): points {after}", f"GridBase.update(1, newpos) with {int(with_links)} link(s) leaves the point array as {after}; expected {want} (the given point and EVERY link follower move, nothing else; a follower is computed after its leader was set)", upd.node, key=f"update:{int(with_links)}-links")
        want_ret = "grid-quality" if with_links else "q1"
        r.check(repr(res) == want_ret, upd, f"returns {res}", f"GridBase.update returns {res!r}; expected the {'grid' if with_links else 'junction'} quality", upd.node, key=f"update-return:{int(with_links)}-links")

    # call sites of GridBase.update
    sites = []
    for fn in repo.all_functions():
        for n in ast.walk(fn.node):
            if isinstance(n, ast.Call) and isinstance(n.func, ast.Attribute) and n.func.attr == "update" and (attr_chain(n.func.value) or "").endswith("grid") and len(n.args) == 2:
                sites.append((fn, n))
    r.require(len(sites) >= 5, f"expected at least 5 call sites of grid.update, found {len(sites)}")
    for fn, call in sites:
        first = ast.unparse(call.args[0])
        second = ast.unparse(call.args[1])
        ok = first == "junction.index" and second == "clamp.position"
        # junction must come from get_junction_from_clamp(clamp)
        src_ok = any(isinstance(n, ast.Assign) and ast.unparse(n.targets[0]) == "junction" and isinstance(n.value, ast.Call) and (attr_chain(n.value.func) or "").endswith("get_junction_from_clamp") and ast.unparse(n.value.args[0]) == "clamp" for n in ast.walk(fn.node))
        r.check(ok and src_ok, fn, "grid.update(junction.index, clamp.position) for the clamp's own junction", f"{fn.qualname} calls grid.update({first}, {second}): only the junction that owns the clamp may be moved, to the clamp's position", call, key=f"call:{fn.name}:{call.lineno - fn.node.lineno}")
    return r


who_writes_points.rule_id = "C13.WHO-WRITES-POINTS"


def backport_rule(repo: Repo) -> RuleRun:
    r = RuleRun(PROP, "C13.BACKPORT", floor=3, what="every normal exit of optimize passes backport()")
    fn = repo.func("optimize.optimizer.OptimizerBase.optimize")
    g = CFG(fn.node)
    is_bp = lambda n: any(attr_chain(c.func) == "self.backport" for c in node_calls(n))  # noqa: E731
    ok, path = g.must_pass(g.entry, g.exit_return, is_bp)
    r.check(ok, fn, "backport() on every normal exit", f"optimize() can return without copying the result back to the mesh/sketch: {fmt_path(path)}", fn.node, key="backport")
    # the loop runs optimize_iteration between begin/end bookkeeping
    loops = [n for n in walk_shallow(fn.node) if isinstance(n, ast.While)]
    r.require(len(loops) == 1, "optimize: while loop not found")
    body = [ast.unparse(s) for s in loops[0].body]
    t_ = loops[0].test
    ok = any("optimize_iteration" in b for b in body) and isinstance(t_, ast.UnaryOp) and isinstance(t_.op, ast.Not) and isinstance(t_.operand, ast.Attribute) and t_.operand.attr == "converged"
    r.check(ok, fn, "iterate until driver.converged", f"optimize loop is 'while {ast.unparse(loops[0].test)}': {body}", loops[0], key="loop")
    # bp after loop
    bps = [n for n in g.stmt_nodes() if is_bp(n)]
    lp = g.nodes_of(loops[0])
    r.check(bool(bps) and bool(lp) and all(b.id in g.reach([lp[0]]) for b in bps) and all(lp[0].id not in g.reach([b]) for b in bps), fn, "backport after the last iteration", "backport() is not placed after the iteration loop", fn.node, key="after-loop")
    # auto_optimize returns through optimize
    ao = repo.func("optimize.optimizer.SketchOptimizer.auto_optimize")
    ga = CFG(ao.node)
    ra = Reach(repo, ao)
    ok, _p = ga.must_pass(ga.entry, ga.exit_return, lambda n: ra.node_reaches(n, fn))
    r.check(ok, ao, "auto_optimize delegates to optimize()", "SketchOptimizer.auto_optimize does not finish through optimize() (no backport)", ao.node, key="auto_optimize")
    return r


backport_rule.rule_id = "C13.BACKPORT"


def warning_filter(repo: Repo) -> RuleRun:
    r = RuleRun(PROP, "C13.WARNING-FILTER", floor=2, what="filterwarnings('error') in CellBase.quality is released on every exit")
    fn = repo.func("optimize.cell.CellBase.quality")
    g = CFG(fn.node)
    sets = [n for n in g.stmt_nodes() if any(attr_chain(c.func) in ("warnings.filterwarnings", "warnings.simplefilter") for c in node_calls(n))]
    r.require(len(sets) >= 1, "CellBase.quality no longer installs a warnings filter")
    is_reset = lambda n: any(attr_chain(c.func) in ("warnings.resetwarnings",) for c in node_calls(n))  # noqa: E731
    with_ctx = any(isinstance(n, ast.With) and "catch_warnings" in ast.unparse(n.items[0].context_expr) for n in ast.walk(fn.node))
    for s in sets:
        if with_ctx:
            r.ok(fn, "filter scoped by warnings.catch_warnings()", key="normal-exit")
            r.ok(fn, "filter scoped by warnings.catch_warnings()", key="raise-exit")
            continue
        ok1, p1 = g.must_pass(s, g.exit_return, is_reset)
        ok2, p2 = g.must_pass(s, g.exit_raise, is_reset)
        r.check(ok1, fn, "reset on normal exit", f"the 'error' warnings filter stays installed on a normal exit: {fmt_path(p1)}", s.stmt, key="normal-exit")
        r.check(ok2, fn, "reset on exceptional exit", f"the 'error' warnings filter stays installed when quality raises (degenerate cell): {fmt_path(p2)} - every later warning in the user's program becomes an exception", s.stmt, key="raise-exit")
    # RuntimeWarning is converted to ValueError (what optimize_clamp catches)
    hs = [n for n in ast.walk(fn.node) if isinstance(n, ast.ExceptHandler)]
    ok = any(h.type is not None and "RuntimeWarning" in ast.unparse(h.type) and any(isinstance(x, ast.Raise) and x.exc is not None and "ValueError" in ast.unparse(x.exc) for x in h.body) for h in hs)
    oc = repo.func("optimize.optimizer.OptimizerBase.optimize_clamp")
    catches = any(isinstance(h, ast.ExceptHandler) and h.type is not None and ast.unparse(h.type) in ("ValueError", "Exception") for h in ast.walk(oc.node))
    r.check(ok and catches, fn, "degenerate cell -> ValueError -> caught by optimize_clamp", "the exception raised for a degenerate cell is not the one optimize_clamp rolls back on", fn.node, key="exception-type")
    return r


warning_filter.rule_id = "C13.WARNING-FILTER"

def affine_kinds(repo: Repo) -> RuleRun:
    """Default bounds and positions of clamps and links are built from differences of points, never from positions
    (same check as C17.AFFINE-KINDS, over the optimisation package)."""
    from ..affine import kinds_rule

    return kinds_rule(repo, PROP, "C13.AFFINE-KINDS", ("optimize.",), floor=5)


affine_kinds.rule_id = "C13.AFFINE-KINDS"

def link_relation(repo: Repo) -> RuleRun:
    """'linked vertices keep their relation to their leader' while optimising: the link transforms as linear forms over leader,
    origin and the original offset - same rule as C17.LINK-ALGEBRA."""
    from ..report import rebrand
    from . import c17

    return rebrand(c17.link_algebra(repo), PROP, "C13.LINK-RELATION")


link_relation.rule_id = "C13.LINK-RELATION"

def owns_geometry(repo: Repo) -> RuleRun:
    """A clamp's manifold and a link's reference points are fixed when they are created: the constructors keep private copies of the coordinates they are given."""
    from ..alias import escaping_view_rule

    return escaping_view_rule(repo, PROP, "C13.OWNS-GEOMETRY", ('optimize.',))


owns_geometry.rule_id = "C13.OWNS-GEOMETRY"

def angle_dimension(repo: Repo) -> RuleRun:
    from ..dims import angle_dimension_rule

    return angle_dimension_rule(repo, PROP, "C13.ANGLE-DIMENSION")


angle_dimension.rule_id = "C13.ANGLE-DIMENSION"

def float_stores(repo: Repo) -> RuleRun:
    """'linked vertices follow their leader exactly': a follower computed from a truncated leader is up to one unit off. Arrays stored into in place are float arrays by construction."""
    from ..alias import inplace_dtype_rule

    return inplace_dtype_rule(repo, PROP, "C13.FLOAT-STORES")


float_stores.rule_id = "C13.FLOAT-STORES"

def backport_table(repo: Repo) -> RuleRun:
    """'the positions kept are the positions written': the copy-back after optimisation moves EVERY mesh vertex / sketch face to the grid point of the same index. Same rule as C15.BACKPORT."""
    from ..report import rebrand
    from . import c15

    return rebrand(c15.backport(repo), PROP, "C13.BACKPORT-TABLE")


backport_table.rule_id = "C13.BACKPORT-TABLE"

def mirror_matrix(repo: Repo) -> RuleRun:
    """'linked vertices follow their leader exactly': a SymmetryLink over a plane in general position reflects. Same rule as C09.MIRROR-MATRIX."""
    from ..report import rebrand
    from . import c09

    return rebrand(c09.mirror_matrix(repo), PROP, "C13.MIRROR-MATRIX")


mirror_matrix.rule_id = "C13.MIRROR-MATRIX"

def grid_quality(repo: Repo) -> RuleRun:
    """'a step is kept only if the summed quality of all cells did not get worse': the quantity the rollback decision (and the
    objective of linked clamps) is made with is the sum over the CELLS, each once. A junction's quality is an average over the cells
    that meet there, so a sum over junctions weighs rim cells more than inner ones. Abstract run of GridBase.quality on a grid whose
    cells and junctions report different numbers."""
    r = RuleRun(PROP, "C13.GRID-QUALITY", floor=2, what="GridBase.quality is the sum of the cells' qualities, every cell once (not of junction averages)")
    q = repo.find_method(repo.cls("optimize.grid.GridBase"), "quality")
    r.require(q is not None and q.is_property, "GridBase.quality vanished")
    for label, cells, junctions in (("3 cells, 8 junctions", [1, 10, 100], [1, 5, 5, 50, 50, 100, 100, 1]), ("1 cell", [7], [7, 7, 7, 7]), ("4 cells, equal junction sum", [1, 2, 3, 4], [5, 5])):
        g = Obj("grid", cls=repo.cls("optimize.grid.GridBase"))
        g.set("cells", [Obj(f"cell{i}", quality=v) for i, v in enumerate(cells)])
        g.set("junctions", [Obj(f"junction{i}", quality=v) for i, v in enumerate(junctions)])
        try:
            got = Evaluator(repo=repo, module=q.module).call_funcinfo(q, [g])
        except (Raised, NotEvaluable) as err:
            raise AnalysisError(f"GridBase.quality not evaluable: {err}") from err
        r.check(got == sum(cells), q, f"{label}: {got} = sum over cells", f"GridBase.quality, {label}: cells report {cells}, junctions {junctions}; the grid reports {got!r} instead of {sum(cells)} - the rollback test and the objective of linked clamps are made with a number in which the cells are not weighted equally", q.node, key=f"quality:{label}")
    return r


grid_quality.rule_id = "C13.GRID-QUALITY"

def symmetry_exact(repo: Repo) -> RuleRun:
    """'linked vertices follow their leader exactly': the symmetry link, leader on either side of the plane. Same rule as C17.SYMMETRY-EXACT."""
    from ..report import rebrand
    from . import c17

    return rebrand(c17.symmetry_exact(repo), PROP, "C13.SYMMETRY-EXACT")


symmetry_exact.rule_id = "C13.SYMMETRY-EXACT"

def match_tolerance(repo: Repo, prop: str = PROP, rule: str = "C13.MATCH-TOLERANCE") -> RuleRun:
    """'only clamped vertices move': clamps, links and fixed points are attached to the grid point AT the given position - matched by distance against the
    library tolerance, purely absolute and of a non-negative magnitude. A relative part (numpy's allclose / isclose default
    rtol = 1e-5) reaches neighbouring points of a fine mesh far from the origin; a signed or one-sided quantity (max(a - b))
    matches everything on one side."""
    from .. import tolerance

    r = RuleRun(prop, rule, floor=3, what="GridBase.add_clamp / add_link and SmootherBase.fix_points match grid points by absolute distance against the library tolerance (no relative band, no signed quantity)")
    r.exhaustive = True
    tolerance.check_functions(r, repo, ["optimize.grid.GridBase.add_clamp", "optimize.grid.GridBase.add_link", "optimize.smoother.SmootherBase.fix_points"], scan_modules=("optimize.grid", "optimize.smoother", "optimize.junction"))
    return r


match_tolerance.rule_id = "C13.MATCH-TOLERANCE"


def links_accumulate(repo: Repo, prop: str = PROP, rule: str = "C13.LINKS-ACCUMULATE") -> RuleRun:
    """'linked vertices keep their translation, rotation or mirror relation to their leader' - all of them: a leader may have
    several followers. Abstract run of Junction.add_link three times on one junction and of GridBase.update on it: every link
    registered is kept, in order, and every follower is updated when the leader moves."""
    r = RuleRun(prop, rule, floor=3, what="Junction.add_link keeps every link registered on a leader; GridBase.update moves every follower of the moved junction")
    jcls = repo.cls("optimize.junction.Junction")
    add = repo.find_method(jcls, "add_link")
    r.require(add is not None, "Junction.add_link vanished")
    j = Obj("leader-junction", cls=jcls)
    j.set("links", [])
    j.set("index", 0)
    links = [Obj(f"link{k}", follower=Sym(f"follower-position{k}"), leader=[Sym(f"old-leader{k}-x"), Sym(f"old-leader{k}-y"), Sym(f"old-leader{k}-z")]) for k in range(3)]

    def hook(ev, call: ast.Call, name):
        if (name or "").split(".")[-1] == "IndexedLink":
            args = [ev.eval(a) for a in call.args]
            return Obj(f"indexed:{args[0]._name}", link=args[0], follower_index=args[1])
        if isinstance(call.func, ast.Attribute) and call.func.attr == "update" and isinstance(ev.eval(call.func.value), Obj) and ev.eval(call.func.value)._name.startswith("link"):
            ev.eval(call.func.value).set("updated", True)
            return None
        return NO_MATCH

    try:
        for k, ln in enumerate(links):
            Evaluator(repo=repo, module=add.module, call_hook=hook).call_funcinfo(add, [j, ln, 10 + k])
    except (Raised, NotEvaluable) as err:
        raise AnalysisError(f"Junction.add_link not evaluable: {err}") from err
    got = [(e.get("link")._name, e.get("follower_index")) for e in j.get("links")]
    r.check(got == [("link0", 10), ("link1", 11), ("link2", 12)], add, "three links on one leader are all kept", f"after three add_link calls the leader junction holds {got}: followers registered earlier lose their link and stay behind when the leader moves", add.node, key="kept")
    # the order in which the user registers things is free: a clamp added AFTER the links of its junction leaves them in place
    addc = repo.find_method(jcls, "add_clamp")
    r.require(addc is not None, "Junction.add_clamp vanished")
    j.set("clamp", None)
    try:
        Evaluator(repo=repo, module=addc.module, call_hook=hook).call_funcinfo(addc, [j, Obj("clamp")])
    except (Raised, NotEvaluable) as err:
        raise AnalysisError(f"Junction.add_clamp not evaluable on a junction with links: {err}") from err
    got2 = [(e.get("link")._name, e.get("follower_index")) for e in j.get("links")]
    r.check(got2 == got, addc, "links registered before the clamp survive add_clamp", f"after add_link x 3 and then add_clamp the junction holds the links {got2} (before: {got}): optimizer.add_link(link); optimizer.add_clamp(clamp of its leader) - the order of the airfoil example - silently drops the link, the follower stays behind when its leader moves", addc.node, key="clamp-after-links")
    upd = repo.func("optimize.grid.GridBase.update")
    grid = Obj("grid", cls=repo.cls("optimize.grid.GridBase"))
    pts = {k: Sym(f"p{k}") for k in (0, 10, 11, 12)}
    grid.set("points", pts)
    followers = {}
    for k in (10, 11, 12):
        fj = Obj(f"follower-junction{k}", cls=jcls)
        fj.set("links", [])
        fj.set("index", k)
        fj.set("quality", Sym(f"jq{k}"))
        followers[k] = fj
    grid.set("junctions", {0: j, **followers})
    grid.set("quality", Sym("quality"))
    j.set("quality", Sym("jq"))
    try:
        Evaluator(repo=repo, module=upd.module, call_hook=hook).call_funcinfo(upd, [grid, 0, Sym("new-leader-position")])
    except (Raised, NotEvaluable) as err:
        raise AnalysisError(f"GridBase.update not evaluable on a leader with three followers: {err}") from err
    moved = {k: repr(v) for k, v in grid.get("points").items()}
    want = {0: "<new-leader-position>", 10: "<follower-position0>", 11: "<follower-position1>", 12: "<follower-position2>"}
    ok = all(moved.get(k, "").strip("<>") == v.strip("<>") for k, v in want.items()) and all(ln.has("updated") for ln in links)
    r.check(ok, upd, "GridBase.update writes the leader and all three followers", f"GridBase.update on a leader with three followers leaves the points as {moved}; expected {want} with every link updated", upd.node, key="update-all")
    told = lambda v: v == Sym("new-leader-position") or (isinstance(v, list) and all(x == Sym("new-leader-position") or "new-leader-position" in repr(x) for x in v))  # noqa: E731
    r.check(all(told(ln.get("leader")) for ln in links if ln.has("leader")) and all(ln.has("leader") for ln in links), upd, "every link is told the leader's new position", "GridBase.update does not hand the new leader position to every link of the junction", upd.node, key="leader-told")
    return r


links_accumulate.rule_id = "C13.LINKS-ACCUMULATE"


def link_chain(repo: Repo, prop: str = PROP, rule: str = "C13.LINK-CHAIN") -> RuleRun:
    """'linked vertices keep their translation, rotation or mirror relation to their leader' - whoever the leader is: a follower may
    itself lead another vertex (a column of vertices that must move together, linked pairwise). Abstract run of GridBase.update on
    three junctions linked 0 -> 1 -> 2 (each link's update() modelled as 'follower := image of the leader it was handed'): after the
    first junction moves, the second link has been handed the NEW position of the middle point and the last point holds its image.
    Two junctions that lead each other (a mirror pair linked both ways) must still terminate."""
    r = RuleRun(prop, rule, floor=3, what="GridBase.update moves the followers of a moved follower as well (links 0 -> 1 -> 2), and terminates on a pair linked both ways")
    upd = repo.func("optimize.grid.GridBase.update")
    jcls = repo.cls("optimize.junction.Junction")

    def hook(ev, call: ast.Call, name):
        if isinstance(call.func, ast.Attribute) and call.func.attr == "update" and not call.args:
            o = ev.eval(call.func.value)
            if isinstance(o, Obj) and o._name.startswith("link"):
                leader = o.get("leader") if o.has("leader") else Sym("stale")
                o.set("follower", Sym(f"{o._name}({repr(leader).strip('<>')})"))
                o.set("updates", (o.get("updates") if o.has("updates") else 0) + 1)
                return None
        return NO_MATCH

    def build(pairs):
        grid = Obj("grid", cls=repo.cls("optimize.grid.GridBase"))
        idx = sorted({i for p in pairs for i in p})
        grid.set("points", {k: Sym(f"p{k}") for k in idx})
        grid.set("quality", Sym("quality"))
        js, links = {}, {}
        for k in idx:
            j = Obj(f"junction{k}", cls=jcls)
            j.set("index", k)
            j.set("links", [])
            j.set("quality", Sym(f"jq{k}"))
            js[k] = j
        for a, b in pairs:
            ln = Obj(f"link{a}{b}", follower=Sym(f"p{b}"), leader=Sym(f"p{a}"))
            links[(a, b)] = ln
            js[a].get("links").append(Obj(f"indexed{a}{b}", link=ln, follower_index=b))
        grid.set("junctions", js)
        return grid, links

    grid, links = build([(0, 1), (1, 2)])
    try:
        ev = Evaluator(repo=repo, module=upd.module, call_hook=hook)
        ev.call_funcinfo(upd, [grid, 0, Sym("new")])
    except (Raised, NotEvaluable) as err:
        raise AnalysisError(f"GridBase.update not evaluable on a chain of links: {err}") from err
    pts = {k: repr(v).strip("<>") for k, v in grid.get("points").items()}
    r.check(pts[0] == "new" and pts[1] == "link01(new)", upd, "leader and its follower moved", f"GridBase.update(0, new) on links 0 -> 1 -> 2 leaves points {pts}", upd.node, key="first-link")
    r.check(
        pts[2] == "link12(link01(new))",
        upd,
        "the follower's follower holds the image of the middle point's new position",
        f"GridBase.update(0, new) on links 0 -> 1 -> 2 leaves point 2 at '{pts[2]}' (expected link12(link01(new))): only the direct followers of the moved junction are updated, a link whose leader has no clamp of "
        "its own is never evaluated - FreeClamp(A), TranslationLink(A, B), TranslationLink(B, C): B follows A, C stays where it was and the relation C - B is lost",
        upd.node,
        key="second-link",
    )
    grid2, links2 = build([(0, 1), (1, 0)])
    import sys

    lim = sys.getrecursionlimit()
    try:
        sys.setrecursionlimit(max(lim, 3000))
        ev = Evaluator(repo=repo, module=upd.module, call_hook=hook)
        ev.max_depth = 60 if hasattr(ev, "max_depth") else None
        ev.call_funcinfo(upd, [grid2, 0, Sym("new")])
        ended = True
    except (RecursionError, NotEvaluable) as err:
        ended = False
        why = str(err)[:80]
    except Raised as err:
        raise AnalysisError(f"GridBase.update raised on a pair linked both ways: {err}") from err
    finally:
        sys.setrecursionlimit(lim)
    pts2 = {k: repr(v).strip("<>") for k, v in grid2.get("points").items()}
    r.check(
        ended and pts2[0] == "new" and pts2[1] == "link01(new)",
        upd,
        "a pair linked both ways: the moved point stays where it was put, its partner follows once",
        (f"GridBase.update(0, new) on a pair linked both ways leaves points {pts2}" if ended else f"GridBase.update(0, new) on a pair linked both ways (SymmetryLink(A, B) and SymmetryLink(B, A)) does not terminate ({why})"),
        upd.node,
        key="both-ways",
    )
    return r


link_chain.rule_id = "C13.LINK-CHAIN"


def boundary(repo: Repo) -> RuleRun:
    """'vertices without a clamp do not move': auto_optimize clamps the non-boundary points only - a point is on the boundary as soon as ONE of its cells has it on an open side. Same rule as C15.BOUNDARY."""
    from ..report import rebrand
    from . import c15

    return rebrand(c15.boundary_rule(repo), PROP, "C13.BOUNDARY")


boundary.rule_id = "C13.BOUNDARY"


def no_alias_snapshot(repo: Repo) -> RuleRun:
    """'linked vertices keep their ... relation to their leader': no update is skipped on the strength of a comparison with an alias."""
    from ..memo import alias_snapshot_rule

    return alias_snapshot_rule(repo, PROP, "C13.NO-ALIAS-SNAPSHOT")


no_alias_snapshot.rule_id = "C13.NO-ALIAS-SNAPSHOT"


def radial_exact(repo: Repo) -> RuleRun:
    """'every clamped vertex ends on its ... circle': same rule as C17.RADIAL-EXACT."""
    from . import c17

    return c17.radial_exact(repo, PROP, "C13.RADIAL-EXACT")


radial_exact.rule_id = "C13.RADIAL-EXACT"


def rotation_exact(repo: Repo) -> RuleRun:
    """'linked vertices keep their ... rotation ... relation to their leader' - for turns of any size. Same rule as C17.ROTATION-EXACT."""
    from . import c17

    return c17.rotation_exact(repo, PROP, "C13.ROTATION-EXACT")


rotation_exact.rule_id = "C13.ROTATION-EXACT"



def direction_length(repo: Repo) -> RuleRun:
    """'linked vertices keep their ... mirror relation to their leader' / 'mirroring any entity ...': a mirror plane is given by a direction - its normal at any length. Shared rule (affine.direction_length_rule)."""
    from ..affine import direction_length_rule

    return direction_length_rule(repo, PROP, "C13.DIRECTION-LENGTH")


direction_length.rule_id = "C13.DIRECTION-LENGTH"


RULES = [rollback, probe_restore, who_writes_points, backport_rule, warning_filter, affine_kinds, link_relation, owns_geometry, angle_dimension, float_stores, backport_table, mirror_matrix, grid_quality, symmetry_exact, match_tolerance, links_accumulate, boundary, no_alias_snapshot, radial_exact, rotation_exact, link_chain, direction_length]

"""Who may memoise: a value computed from coordinates that can still move (vertex / point positions, point arrays) must not be
kept by functools.cached_property / lru_cache / cache - after Vertex.move_to, a transformation or an optimisation step the
cached value describes the old geometry. The memoised callables of today's tree are listed with the reason they are safe;
any other memoised callable whose call closure reads `.position` / `.points` / `.point_array` is reported."""

from __future__ import annotations

import ast
from typing import Tuple

from .model import Repo, attr_chain
from .report import RuleRun

MEMO_DECORATORS = {"cached_property", "lru_cache", "cache"}

# confirmed by reading, one line of reason each
ALLOWED = {
    "grading.chop.ChopRelation.get_possible_combinations": "a registry derived from function names; no geometry involved",
    "construct.shapes.shell.AwareFaceStore.point_store": "helper object that lives only while Shell.__init__ builds the lofts; the faces are not moved in between",
    "construct.shapes.shell.AwareFaceStore.aware_faces": "same transient helper as point_store",
    "construct.shapes.shell.AwareFaceStore.is_disconnected": "same transient helper as point_store",
}
GEOMETRY_ATTRS = {"position", "points", "point_array", "positions"}


def memo_rule(repo: Repo, prop: str, rule_id: str, module_prefixes: Tuple[str, ...] = ("",), floor: int = 1) -> RuleRun:
    r = RuleRun(prop, rule_id, floor=floor, what="no memoised (cached_property / lru_cache) value is computed from coordinates that can still move")
    for fn in sorted(repo.all_functions(), key=lambda f: f.qualname):
        decos = []
        for d in fn.node.decorator_list:
            target = d.func if isinstance(d, ast.Call) else d
            nm = (attr_chain(target) or "").split(".")[-1]
            if nm in MEMO_DECORATORS:
                decos.append(nm)
        if not decos:
            continue
        if fn.qualname in ALLOWED:
            r.ok(fn, f"memoised, confirmed safe: {ALLOWED[fn.qualname]}", key="memo")
            continue
        short = fn.module.name[len("classy_blocks.") :] if fn.module.name.startswith("classy_blocks.") else fn.module.name
        if not any(short.startswith(p) for p in module_prefixes):
            continue
        reads = []
        for f2 in sorted(repo.reachable([fn]), key=lambda f: f.qualname):
            for n in ast.walk(f2.node):
                if isinstance(n, ast.Attribute) and isinstance(n.ctx, ast.Load) and n.attr in GEOMETRY_ATTRS:
                    reads.append((f2, n))
        if reads:
            f2, n = reads[0]
            r.bad(
                fn,
                f"{fn.qualname} is memoised with @{decos[0]} but its value is computed from coordinates that can move ('{ast.unparse(n)[:50]}' in {f2.qualname}): after Vertex.move_to / a "
                "transformation / an optimisation step the same object keeps answering with the value of the old geometry (e.g. a curve edge written and measured between "
                "the old curve parameters)",
                fn.node,
                key="memo",
            )
        else:
            r.ok(fn, "memoised value does not depend on coordinates", key="memo")
    return r

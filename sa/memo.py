"""Who may memoise: a value computed from coordinates that can still move (vertex / point positions, point arrays) must not be
kept by functools.cached_property / lru_cache / cache - after Vertex.move_to, a transformation or an optimisation step the
cached value describes the old geometry. The memoised callables of today's tree are listed with the reason they are safe;
any other memoised callable whose call closure reads `.position` / `.points` / `.point_array` is reported."""

from __future__ import annotations

import ast
from typing import Tuple

from .model import Repo, attr_chain
from .report import RuleRun

MEMO_DECORATORS = {"cached_property", "lru_cache", "cache"}

# confirmed by reading, one line of reason each
ALLOWED = {
    "grading.chop.ChopRelation.get_possible_combinations": "a registry derived from function names; no geometry involved",
    "construct.shapes.shell.AwareFaceStore.point_store": "helper object that lives only while Shell.__init__ builds the lofts; the faces are not moved in between",
    "construct.shapes.shell.AwareFaceStore.aware_faces": "same transient helper as point_store",
    "construct.shapes.shell.AwareFaceStore.is_disconnected": "same transient helper as point_store",
}
GEOMETRY_ATTRS = {"position", "points", "point_array", "positions"}


def memo_rule(repo: Repo, prop: str, rule_id: str, module_prefixes: Tuple[str, ...] = ("",), floor: int = 1) -> RuleRun:
    r = RuleRun(prop, rule_id, floor=floor, what="no memoised (cached_property / lru_cache) value is computed from coordinates that can still move")
    for fn in sorted(repo.all_functions(), key=lambda f: f.qualname):
        decos = []
        for d in fn.node.decorator_list:
            target = d.func if isinstance(d, ast.Call) else d
            nm = (attr_chain(target) or "").split(".")[-1]
            if nm in MEMO_DECORATORS:
                decos.append(nm)
        if not decos:
            continue
        if fn.qualname in ALLOWED:
            r.ok(fn, f"memoised, confirmed safe: {ALLOWED[fn.qualname]}", key="memo")
            continue
        short = fn.module.name[len("classy_blocks.") :] if fn.module.name.startswith("classy_blocks.") else fn.module.name
        if not any(short.startswith(p) for p in module_prefixes):
            continue
        reads = []
        for f2 in sorted(repo.reachable([fn]), key=lambda f: f.qualname):
            for n in ast.walk(f2.node):
                if isinstance(n, ast.Attribute) and isinstance(n.ctx, ast.Load) and n.attr in GEOMETRY_ATTRS:
                    reads.append((f2, n))
        # ... or from the object's own state that its class changes later (a memoised view of a list the class appends to)
        stale_state = None
        if fn.cls is not None and fn.params and not reads:
            selfname = fn.params[0]
            read_attrs = set()
            seen_, todo_ = set(), [fn]
            while todo_:
                g_ = todo_.pop()
                if g_ in seen_ or not g_.params:
                    continue
                seen_.add(g_)
                sn_ = g_.params[0]
                for n_ in ast.walk(g_.node):
                    if isinstance(n_, ast.Attribute) and isinstance(n_.value, ast.Name) and n_.value.id == sn_ and isinstance(n_.ctx, ast.Load):
                        read_attrs.add(n_.attr)
                        m_ = repo.find_method(fn.cls, n_.attr)
                        if m_ is not None and m_.is_property:
                            todo_.append(m_)
            MUT = {"append", "extend", "add", "clear", "sort", "remove", "pop", "insert", "update", "reverse", "discard"}
            for c_ in repo.mro(fn.cls):
                for m_ in c_.methods.values():
                    if m_.name == "__init__" or m_ is fn or not m_.params:
                        continue
                    sn_ = m_.params[0]
                    # a nested helper that is handed `self` works on the object under its own parameter name (merge_two_sketches(self, other))
                    me_ = {sn_}
                    nested_ = {d_.name: d_ for d_ in ast.walk(m_.node) if isinstance(d_, ast.FunctionDef) and d_ is not m_.node}
                    for c_2 in ast.walk(m_.node):
                        if isinstance(c_2, ast.Call) and isinstance(c_2.func, ast.Name) and c_2.func.id in nested_:
                            for k_, a_ in enumerate(c_2.args):
                                if isinstance(a_, ast.Name) and a_.id == sn_ and k_ < len(nested_[c_2.func.id].args.args):
                                    me_.add(nested_[c_2.func.id].args.args[k_].arg)
                    for n_ in ast.walk(m_.node):
                        hit = None
                        if isinstance(n_, (ast.Assign, ast.AugAssign, ast.AnnAssign)):
                            for t_ in n_.targets if isinstance(n_, ast.Assign) else [n_.target]:
                                b_ = t_
                                while isinstance(b_, ast.Subscript):
                                    b_ = b_.value
                                if isinstance(b_, ast.Attribute) and isinstance(b_.value, ast.Name) and b_.value.id in me_ and b_.attr in read_attrs:
                                    hit = b_.attr
                        elif isinstance(n_, ast.Call) and isinstance(n_.func, ast.Attribute) and n_.func.attr in MUT:
                            b_ = n_.func.value
                            if isinstance(b_, ast.Attribute) and isinstance(b_.value, ast.Name) and b_.value.id in me_ and b_.attr in read_attrs:
                                hit = b_.attr
                        if hit is not None and stale_state is None:
                            stale_state = (m_, hit, n_)
            # ... or from an attribute of the ELEMENTS of one of its containers that the class re-assigns element by element
            # (for wire in self.wires: wire.grading = ...): the memoised value is a view of those elements
            if stale_state is None:
                elem_attrs = {n_.attr for g_ in seen_ for n_ in ast.walk(g_.node) if isinstance(n_, ast.Attribute) and isinstance(n_.ctx, ast.Load) and not (isinstance(n_.value, ast.Name) and g_.params and n_.value.id == g_.params[0])}
                for c_ in [*repo.mro(fn.cls), *repo.subclasses(fn.cls)]:
                    for m_ in c_.methods.values():
                        if m_.name == "__init__" or m_ is fn or not m_.params:
                            continue
                        sn_ = m_.params[0]
                        for lp in ast.walk(m_.node):
                            if isinstance(lp, ast.For) and isinstance(lp.target, ast.Name) and isinstance(lp.iter, ast.Attribute) and isinstance(lp.iter.value, ast.Name) and lp.iter.value.id == sn_ and lp.iter.attr in read_attrs:
                                for n_ in ast.walk(lp):
                                    if isinstance(n_, ast.Assign):
                                        for t_ in n_.targets:
                                            if isinstance(t_, ast.Attribute) and isinstance(t_.value, ast.Name) and t_.value.id == lp.target.id and t_.attr in elem_attrs and stale_state is None:
                                                stale_state = (m_, f"{lp.iter.attr}[..].{t_.attr}", n_)
        if stale_state is not None:
            m_, attr_, node_ = stale_state
            r.bad(
                fn,
                f"{fn.qualname} is memoised with @{decos[0]} but is computed from self.{attr_}, which {m_.qualname} changes later ('{ast.unparse(node_)[:50]}'): the first look freezes the value, "
                "after the next change the same object keeps answering with the old one",
                fn.node,
                key="memo",
            )
        elif reads:
            f2, n = reads[0]
            r.bad(
                fn,
                f"{fn.qualname} is memoised with @{decos[0]} but its value is computed from coordinates that can move ('{ast.unparse(n)[:50]}' in {f2.qualname}): after Vertex.move_to / a "
                "transformation / an optimisation step the same object keeps answering with the value of the old geometry (e.g. a curve edge written and measured between "
                "the old curve parameters)",
                fn.node,
                key="memo",
            )
        else:
            r.ok(fn, "memoised value does not depend on coordinates", key="memo")
    return r


def lazy_cache_rule(repo: Repo, prop: str, rule_id: str, module_prefixes: Tuple[str, ...] = ("",), floor: int = 0) -> RuleRun:
    """Hand-written memoisation: ``if self._c is None: self._c = <expr>`` ... ``self._c``. The cached value is stale as soon as
    something <expr> was computed from changes. Reported: (a) <expr> reads a parameter of the method (the value belongs to one
    call, the cache to the instance); (b) <expr> reads ``self.X`` and some method of the class changes ``self.X`` (append/add/
    assignment, through callees) without resetting the cache."""
    from .effects import Effects

    r = RuleRun(prop, rule_id, floor=floor, what="hand-written lazy caches (if self._c is None: self._c = ...) are reset by every method that changes what they were computed from, and never hold a value computed from a call argument")
    eff = None
    n_caches = 0
    for fn in sorted(repo.all_functions(), key=lambda f: f.qualname):
        short = fn.module.name[len("classy_blocks.") :] if fn.module.name.startswith("classy_blocks.") else fn.module.name
        if fn.cls is None or not fn.params or not any(short.startswith(p) for p in module_prefixes):
            continue
        selfname = fn.params[0]
        for n in ast.walk(fn.node):
            if not isinstance(n, ast.If):
                continue
            t = n.test
            cache = None
            if isinstance(t, ast.Compare) and len(t.ops) == 1 and isinstance(t.ops[0], ast.Is) and isinstance(t.comparators[0], ast.Constant) and t.comparators[0].value is None and isinstance(t.left, ast.Attribute) and attr_chain(t.left.value) == selfname:
                cache = t.left.attr
            elif isinstance(t, ast.UnaryOp) and isinstance(t.op, ast.Not) and isinstance(t.operand, ast.Attribute) and attr_chain(t.operand.value) == selfname:
                cache = t.operand.attr
            if cache is None:
                continue
            stores = [s_ for b_ in n.body for s_ in ast.walk(b_) if isinstance(s_, (ast.Assign, ast.AnnAssign)) and any(isinstance(tt, ast.Attribute) and tt.attr == cache and attr_chain(tt.value) == selfname for tt in (s_.targets if isinstance(s_, ast.Assign) else [s_.target]))]
            if not stores or stores[0].value is None:
                continue
            # it is a cache only if the attribute is read back (returned / used) outside the `if`
            n_caches += 1
            expr = stores[0].value
            params_read = {x.id for x in ast.walk(expr) if isinstance(x, ast.Name) and x.id in fn.params[1:]}
            # a local that is kept: everything that flows into it in this function counts
            local_names = {x.id for x in ast.walk(expr) if isinstance(x, ast.Name) and x.id not in fn.params}
            for _ in range(2):
                for st_ in ast.walk(fn.node):
                    if isinstance(st_, (ast.Assign, ast.AugAssign)):
                        tgs = st_.targets if isinstance(st_, ast.Assign) else [st_.target]
                        roots = set()
                        for tg in tgs:
                            b_ = tg
                            while isinstance(b_, (ast.Subscript, ast.Attribute)):
                                b_ = b_.value
                            if isinstance(b_, ast.Name):
                                roots.add(b_.id)
                        if roots & local_names:
                            for x in ast.walk(st_.value):
                                if isinstance(x, ast.Name):
                                    if x.id in fn.params[1:]:
                                        params_read.add(x.id)
                                    elif x.id not in fn.params:
                                        local_names.add(x.id)
            params_read = sorted(params_read)
            key = f"cache:{cache}"
            if params_read:
                r.bad(
                    fn,
                    f"{fn.qualname} keeps '{ast.unparse(expr)[:60]}' in self.{cache} on the first call, but the value is computed from the call argument(s) {params_read}: every later call "
                    "with another argument silently reuses the value of the first one",
                    stores[0],
                    key=key,
                )
                continue
            deps = sorted({x.attr for x in ast.walk(expr) if isinstance(x, ast.Attribute) and attr_chain(x.value) == selfname and x.attr != cache})
            if eff is None:
                eff = Effects(repo)
            stale_by = []
            for c in [fn.cls, *repo.subclasses(fn.cls), *repo.mro(fn.cls)[1:]]:
                for m in c.methods.values():
                    if m is fn or m.name == "__init__":
                        continue
                    changed = {a.split(".", 1)[1] for a in eff.mutated_self_attrs(m)}
                    for x in ast.walk(m.node):
                        if isinstance(x, (ast.Assign, ast.AugAssign)):
                            for tt in x.targets if isinstance(x, ast.Assign) else [x.target]:
                                if isinstance(tt, ast.Attribute) and attr_chain(tt.value) == m.params[0] if m.params else False:
                                    changed.add(tt.attr)
                    hit = changed & set(deps)
                    if not hit:
                        continue
                    resets = any(isinstance(x, ast.Assign) and any(isinstance(tt, ast.Attribute) and tt.attr == cache for tt in x.targets) for x in ast.walk(m.node))
                    if not resets:
                        stale_by.append((m, sorted(hit)))
            # a class with an explicit invalidation method: every lazy cache must be reset THERE (resetting it where the value is
            # rebuilt comes too late for readers that look at the cache first)
            inval = [m for c in repo.mro(fn.cls) for m in c.methods.values() if m.name in ("invalidate", "reset", "clear_cache")]
            if inval and not any(isinstance(x, ast.Assign) and any(isinstance(tt, ast.Attribute) and tt.attr == cache for tt in x.targets) for m in inval for x in ast.walk(m.node)):
                r.bad(
                    fn,
                    f"{fn.qualname} caches '{ast.unparse(expr)[:60]}' in self.{cache}, and the class has {inval[0].qualname}(), but that method does not reset self.{cache}: after an invalidation "
                    "(a transformation of the underlying points) the cached value is still served to whoever reads it before the function is rebuilt",
                    stores[0],
                    key=key,
                )
                continue
            if stale_by:
                m, hit = stale_by[0]
                r.bad(
                    fn,
                    f"{fn.qualname} caches '{ast.unparse(expr)[:60]}' in self.{cache}; {m.qualname} changes self.{hit[0]} afterwards without resetting the cache: the cached value "
                    "keeps describing the state at the time of the first call",
                    stores[0],
                    key=key,
                )
            else:
                r.ok(fn, f"self.{cache} depends on {deps or 'nothing mutable'}; every method that changes them resets it", key=key)
    r.note(f"{n_caches} hand-written lazy cache(s) found in the selected modules")
    return r


# ---------------------------------------------------------------------------------------------------------------------
def keyed_cache_rule(repo: Repo, prop: str, rule_id: str, module_prefixes: Tuple[str, ...], floor: int = 3) -> RuleRun:
    """Caches that are filled on demand under a test on the cache itself - ``if len(self._c) != n: self._c = ...``,
    ``if key not in self._c: self._c[key] = ...`` (the ``is None`` form is lazy_cache_rule's). Two things are examined:
    (a) what is kept must not be computed from coordinates (``.position`` / ``.points``): nothing invalidates it when a vertex
    moves, the same finder keeps answering for the old geometry; (b) a cached container must not be handed out itself: the
    caller's ``result.update(...)`` changes what every later query returns."""
    r = RuleRun(prop, rule_id, floor=floor, what="on-demand caches neither keep values computed from coordinates that can move nor hand out their own containers; instances: methods of the finder / query classes examined")
    for fn in sorted(repo.all_functions(), key=lambda f: f.qualname):
        short = fn.module.name[len("classy_blocks.") :] if fn.module.name.startswith("classy_blocks.") else fn.module.name
        if fn.cls is None or not fn.params or fn.name == "__init__" or not any(short.startswith(p) for p in module_prefixes):
            continue
        selfname = fn.params[0]
        problems = []
        for n in ast.walk(fn.node):
            if not isinstance(n, ast.If):
                continue
            tested = {x.attr for x in ast.walk(n.test) if isinstance(x, ast.Attribute) and isinstance(x.value, ast.Name) and x.value.id == selfname}
            if not tested:
                continue
            for st in n.body:
                for a in ast.walk(st):
                    if not isinstance(a, ast.Assign):
                        continue
                    for t in a.targets:
                        b = t
                        while isinstance(b, ast.Subscript):
                            b = b.value
                        if isinstance(b, ast.Attribute) and isinstance(b.value, ast.Name) and b.value.id == selfname and b.attr in tested:
                            cache = b.attr
                            # (a) coordinates in the cached value (through locals and self-calls of this class, two levels)
                            reads = []
                            todo, seen = [a.value], set()
                            depth = 0
                            while todo and depth < 40:
                                depth += 1
                                e = todo.pop()
                                for x in ast.walk(e):
                                    if isinstance(x, ast.Attribute) and x.attr in GEOMETRY_ATTRS and isinstance(x.ctx, ast.Load):
                                        reads.append(x)
                                    if isinstance(x, ast.Name) and x.id not in seen:
                                        seen.add(x.id)
                                        for d in ast.walk(fn.node):
                                            if isinstance(d, ast.Assign) and any(isinstance(tt, ast.Name) and tt.id == x.id for tt in d.targets):
                                                todo.append(d.value)
                                    if isinstance(x, ast.Call) and isinstance(x.func, ast.Attribute) and isinstance(x.func.value, ast.Name) and x.func.value.id == selfname:
                                        m_ = repo.find_method(fn.cls, x.func.attr)
                                        if m_ is not None and m_.qualname not in seen:
                                            seen.add(m_.qualname)
                                            for f2 in repo.reachable([m_]):
                                                for y in ast.walk(f2.node):
                                                    if isinstance(y, ast.Attribute) and y.attr in GEOMETRY_ATTRS and isinstance(y.ctx, ast.Load):
                                                        reads.append(y)
                            if reads:
                                problems.append((a, f"keeps a value computed from coordinates ('{ast.unparse(reads[0])[:40]}') in self.{cache} and refreshes it only when '{ast.unparse(n.test)[:50]}': after a vertex is moved the same object keeps answering for the old positions"))
                            # (b) the cached container itself is returned
                            for ret in ast.walk(fn.node):
                                if isinstance(ret, ast.Return) and ret.value is not None:
                                    v = ret.value
                                    while isinstance(v, ast.Subscript):
                                        v = v.value
                                    if isinstance(v, ast.Attribute) and isinstance(v.value, ast.Name) and v.value.id == selfname and v.attr == cache:
                                        problems.append((ret, f"returns its own cached container ('{ast.unparse(ret.value)[:40]}') instead of a copy: a caller that extends the result (inner = finder.find_core(True); inner.update(...)) changes what every later query returns"))
        seen_msgs = set()
        if not problems:
            r.ok(fn, f"{fn.cls.name}.{fn.name}: no on-demand cache of coordinates, no cached container handed out", key=f"method:{fn.cls.name}.{fn.name}")
        for i, (node, msg) in enumerate(problems):
            if msg in seen_msgs:
                continue
            seen_msgs.add(msg)
            r.bad(fn, f"{fn.qualname} {msg}", node, key=f"cache#{len(seen_msgs) - 1}")
    return r


# ---------------------------------------------------------------------------------------------------------------------
def alias_snapshot_rule(repo, prop: str, rule_id: str, module_prefixes=("optimize.",)):
    """Change detection needs a COPY of the old value: ``self._seen = self.leader`` followed by ``if array_equal(self.leader,
    self._seen): return`` compares an array with itself whenever the value is changed in place (``link.leader += d``,
    ``leader[:] = p``), so the update is skipped although the value moved. For every class: an attribute that is assigned another
    attribute of the same object without a copying call, and a comparison of the two anywhere in the class. Expected count zero;
    the matcher is exercised on an embedded example on every run."""
    import ast as _ast

    from .model import AnalysisError, attr_chain
    from .report import RuleRun

    r = RuleRun(prop, rule_id, floor=1, what="no 'snapshot' attribute that is merely another name for the attribute it is compared with (change detection by comparing an array with its own alias)")
    COPIES = ("array", "copy", "deepcopy", "list", "tuple")

    def scan(cls_node: _ast.ClassDef):
        pairs = {}
        for fn in [n for n in cls_node.body if isinstance(n, _ast.FunctionDef)]:
            if not fn.args.args:
                continue
            me = fn.args.args[0].arg
            for n in _ast.walk(fn):
                if isinstance(n, _ast.Assign) and len(n.targets) == 1 and isinstance(n.targets[0], _ast.Attribute) and attr_chain(n.targets[0].value) == me:
                    v = n.value
                    if isinstance(v, _ast.Attribute) and attr_chain(v.value) == me and v.attr != n.targets[0].attr:
                        pairs[(n.targets[0].attr, v.attr)] = n
        out = []
        for fn in [n for n in cls_node.body if isinstance(n, _ast.FunctionDef)]:
            if not fn.args.args:
                continue
            me = fn.args.args[0].arg
            for n in _ast.walk(fn):
                operands = []
                if isinstance(n, _ast.Call) and (attr_chain(n.func) or "").split(".")[-1] in ("array_equal", "array_equiv", "allclose", "isclose") and len(n.args) >= 2:
                    operands = n.args[:2]
                elif isinstance(n, _ast.Compare) and len(n.ops) == 1 and isinstance(n.ops[0], (_ast.Eq, _ast.NotEq, _ast.Is, _ast.IsNot)):
                    operands = [n.left, n.comparators[0]]
                names = [o.attr for o in operands if isinstance(o, _ast.Attribute) and attr_chain(o.value) == me]
                if len(names) == 2:
                    for (snap, src), where in pairs.items():
                        if set(names) == {snap, src}:
                            out.append((snap, src, where, n, fn.name))
        return out

    probe = _ast.parse("class L:\n    def update(self):\n        if self._seen is not None and np.array_equal(self.leader, self._seen):\n            return\n        self._seen = self.leader\n        self.follower = self.transform()\nclass M:\n    def update(self):\n        if np.array_equal(self.leader, self._seen):\n            return\n        self._seen = np.copy(self.leader)")
    found = [scan(c) for c in probe.body]
    if not (len(found[0]) == 1 and len(found[1]) == 0):
        raise AnalysisError(f"{rule_id}: the matcher no longer separates its embedded positive and negative example")
    n = 0
    for cls in sorted(repo.classes.values(), key=lambda c: c.qualname):
        short = cls.module.name.split("classy_blocks.")[-1]
        if not any(short.startswith(p) for p in module_prefixes):
            continue
        n += 1
        for snap, src, where, cmp_, meth in scan(cls.node):
            fn = cls.methods.get(meth)
            r.bad(
                fn if fn is not None else cls,
                f"{cls.qualname}.{meth}: '{_ast.unparse(cmp_)[:70]}' compares self.{src} with self.{snap}, which '{_ast.unparse(where)[:50]}' made another name for the same object: after an in-place "
                f"change of {src} (+=, [:] =) the two are still equal and the update is skipped - the follower / dependent value stays where it was although the leader moved",
                cmp_,
                key=f"alias:{snap}",
            )
    r.ok(None, f"{n} classes scanned; matcher verified on its embedded examples", key="scan")
    return r

"""E5 - rule results, findings, evidence files, known findings, exit codes."""

from __future__ import annotations

import ast
import json
import os
import re
import time
from dataclasses import dataclass, field
from typing import Any, Dict, List, Optional, Tuple

from .model import AnalysisError, FuncInfo, ClassInfo, Module, norm

VERIF = os.path.dirname(os.path.dirname(os.path.abspath(__file__)))
EVIDENCE_DIR = os.path.join(VERIF, "evidence")
KNOWN_PATH = os.path.join(VERIF, "known_findings.json")


@dataclass
class Finding:
    property: str
    rule: str
    construct: str  # "<module.qualname>[::<key>]" - never a line number
    detail: str
    loc: str = ""
    stmt: str = ""

    @property
    def key(self) -> Tuple[str, str, str]:
        return (self.property, self.rule, self.construct)

    def to_json(self) -> Dict[str, Any]:
        return {
            "property": self.property,
            "rule": self.rule,
            "construct": self.construct,
            "detail": self.detail,
            "loc": self.loc,
            "stmt": self.stmt,
        }


ACTIVE: List["RuleRun"] = []  # rule runs created since the driver last cleared the list (partial results on errors)


class RuleRun:
    """Collects what one rule examined. ``ok``/``bad`` record one instance each."""

    def __init__(self, prop: str, rule: str, floor: int = 1, what: str = ""):
        ACTIVE.append(self)
        self.prop = prop
        self.rule = rule
        self.floor = floor
        self.what = what  # one-line statement of the rule
        self.instances: List[Dict[str, Any]] = []
        self.findings: List[Finding] = []
        self.notes: List[str] = []
        self.exhaustive = False

    @staticmethod
    def _where(where) -> Tuple[str, str]:
        if isinstance(where, FuncInfo):
            return where.qualname, where.loc
        if isinstance(where, ClassInfo):
            return where.qualname, where.loc
        if isinstance(where, Module):
            return where.name[len("classy_blocks.") :] if where.name.startswith("classy_blocks.") else where.name, where.relpath
        return str(where), ""

    def ok(self, where, note: str = "", key: str = "") -> None:
        c, loc = self._where(where)
        if key:
            c = f"{c}::{key}"
        self.instances.append({"construct": c, "verdict": "ok", "note": note, "loc": loc})

    def bad(self, where, detail: str, node: Optional[ast.AST] = None, key: str = "") -> None:
        c, loc = self._where(where)
        if key:
            c = f"{c}::{key}"
        stmt = ""
        if node is not None:
            try:
                stmt = norm(node)[:200]
            except Exception:  # noqa: BLE001
                stmt = ""
            if loc and hasattr(node, "lineno"):
                loc = loc.split(":")[0] + f":{node.lineno}"
        self.instances.append({"construct": c, "verdict": "finding", "note": detail, "loc": loc})
        self.findings.append(Finding(self.prop, self.rule, c, detail, loc, stmt))

    def check(self, cond: bool, where, good: str, detail: str, node: Optional[ast.AST] = None, key: str = "") -> bool:
        if cond:
            self.ok(where, good, key)
        else:
            self.bad(where, detail, node, key)
        return cond

    def require(self, cond: bool, msg: str) -> None:
        """Anchor/idiom recognition: failing is an analysis error, never a violation."""
        if not cond:
            raise AnalysisError(f"[{self.rule}] {msg}")

    def note(self, msg: str) -> None:
        self.notes.append(msg)

    def finish(self) -> "RuleRun":
        if len(self.instances) < self.floor:
            raise AnalysisError(
                f"[{self.rule}] only {len(self.instances)} instance(s) examined, floor confirmed by hand is {self.floor}"
            )
        return self


def rebrand(res: "RuleRun", prop: str, rule: str) -> "RuleRun":
    """A rule deciding a clause that two properties share is run under the other property's name."""
    res.prop, res.rule = prop, rule
    for f in res.findings:
        f.property, f.rule = prop, rule
    return res


# --------------------------------------------------------------------------------------------


def load_known() -> List[Dict[str, Any]]:
    if not os.path.exists(KNOWN_PATH):
        return []
    with open(KNOWN_PATH, encoding="utf-8") as fh:
        data = json.load(fh)
    return data.get("findings", [])


def known_index(entries: List[Dict[str, Any]]) -> Dict[Tuple[str, str, str], Dict[str, Any]]:
    out = {}
    for e in entries:
        if e.get("status") == "known":
            out[(e["property"], e["rule"], e["construct"])] = e
    return out


def slug(text: str) -> str:
    return re.sub(r"[^A-Za-z0-9_.-]+", "_", text)[:150]


def validate_evidence(ev: Dict[str, Any]) -> None:
    """Hand-rolled check of the parts of EVIDENCE.schema.json that apply to level 'other'
    (jsonschema is not installed in the repository's interpreter)."""
    for k in ("property_id", "tier", "seed", "level", "coverage", "wall_s"):
        if k not in ev:
            raise AnalysisError(f"evidence lacks {k}")
    assert ev["tier"] in ("quick", "thorough")
    assert isinstance(ev["seed"], int)
    assert isinstance(ev["wall_s"], (int, float))
    cov = ev["coverage"]
    assert isinstance(cov, dict)
    if ev["level"] == "other":
        assert isinstance(cov.get("explanation"), str) and cov["explanation"].strip()
    for k in ("evaluations", "distinct_nontrivial", "obligations", "discharged"):
        if k in cov:
            assert isinstance(cov[k], int) and cov[k] >= 0
    if "samples" in cov:
        assert isinstance(cov["samples"], list)
    if "assumptions" in ev:
        assert all(isinstance(a, str) for a in ev["assumptions"])


def write_evidence(prop: str, ev: Dict[str, Any]) -> str:
    validate_evidence(ev)
    os.makedirs(EVIDENCE_DIR, exist_ok=True)
    path = os.path.join(EVIDENCE_DIR, f"{prop}.json")
    tmp = path + ".tmp"
    with open(tmp, "w", encoding="utf-8") as fh:
        json.dump(ev, fh, indent=1, sort_keys=False)
        fh.write("\n")
    os.replace(tmp, path)
    return path


def write_replay(f: Finding, extra: Dict[str, Any]) -> str:
    d = os.path.join(EVIDENCE_DIR, "replay", f.property)
    os.makedirs(d, exist_ok=True)
    path = os.path.join(d, slug(f"{f.rule}__{f.construct}") + ".json")
    data = f.to_json()
    data.update(extra)
    with open(path, "w", encoding="utf-8") as fh:
        json.dump(data, fh, indent=1)
        fh.write("\n")
    return path


class Timer:
    def __init__(self):
        self.t0 = time.time()

    @property
    def s(self) -> float:
        return round(time.time() - self.t0, 3)

"""Stale aliases: an object stores a reference to ANOTHER object's container attribute (self.x = other.items, directly or
through a property that returns an inner attribute) while some method of the owner REBINDS that attribute
(self.items = [] instead of self.items.clear()): after the rebind the stored reference describes the old state.
Each half alone is harmless; the rule reports the combination, at the store."""

from __future__ import annotations

import ast
from typing import Dict, List, Optional, Tuple

from .model import FuncInfo, Repo, TypeEnv, attr_chain, st_cls, walk_shallow
from .report import RuleRun


def rebound_attributes(repo: Repo) -> Dict[Tuple[str, str], List[FuncInfo]]:
    out: Dict[Tuple[str, str], List[FuncInfo]] = {}
    for fn in repo.all_functions():
        if fn.cls is None or fn.name in ("__init__", "__post_init__", "__new__") or not fn.params or fn.is_staticmethod:
            continue
        for n in walk_shallow(fn.node):
            if isinstance(n, (ast.Assign, ast.AnnAssign)) and getattr(n, "value", None) is not None:
                tg = n.targets if isinstance(n, ast.Assign) else [n.target]
                for t in tg:
                    for el in (t.elts if isinstance(t, ast.Tuple) else [t]):
                        if isinstance(el, ast.Attribute) and isinstance(el.value, ast.Name) and el.value.id == fn.params[0]:
                            out.setdefault((fn.cls.qualname, el.attr), []).append(fn)
    return out


def _owner_attr(repo: Repo, env: TypeEnv, v: ast.Attribute, depth: int = 0) -> Optional[Tuple[object, str]]:
    owner = st_cls(env.type_of(v.value))
    if owner is None or depth > 3:
        return None
    m = repo.find_method(owner, v.attr)
    if m is not None and m.is_property:
        rets = [x for x in walk_shallow(m.node) if isinstance(x, ast.Return)]
        if len(rets) == 1 and isinstance(rets[0].value, ast.Attribute):
            return _owner_attr(repo, TypeEnv(repo, m), rets[0].value, depth + 1)
        return None
    if m is not None:
        return None
    return owner, v.attr


def stale_alias_rule(repo: Repo, prop: str, rule_id: str, floor: int = 2) -> RuleRun:
    r = RuleRun(prop, rule_id, floor=floor, what="no object keeps a reference to another object's attribute that one of the owner's methods rebinds (stale after clear()/re-assembly/transformation)")
    rebound = rebound_attributes(repo)
    for fn in sorted(repo.all_functions(), key=lambda f: f.qualname):
        if fn.cls is None or not fn.params or fn.is_staticmethod:
            continue
        env = None
        for n in walk_shallow(fn.node):
            if not (isinstance(n, (ast.Assign, ast.AnnAssign)) and getattr(n, "value", None) is not None and isinstance(n.value, ast.Attribute)):
                continue
            tg = n.targets if isinstance(n, ast.Assign) else [n.target]
            stores = [t for t in tg if isinstance(t, ast.Attribute) and isinstance(t.value, ast.Name) and t.value.id == fn.params[0]]
            if not stores:
                continue
            if env is None:
                env = TypeEnv(repo, fn)
            oa = _owner_attr(repo, env, n.value)
            if oa is None:
                continue
            owner, attr = oa
            if isinstance(n.value.value, ast.Name) and n.value.value.id == fn.params[0] and owner is fn.cls:
                # self.a = self.b : same object, both sides move together when b is rebound by self's own methods? no - still an alias,
                # but of the object's own state; the rebinding method belongs to the same class and is judged there
                pass
            hits = [f for c in [*repo.mro(owner), *repo.subclasses(owner)] for f in rebound.get((c.qualname, attr), [])]
            hits = [f for f in hits if f is not fn]
            key = f"store:{stores[0].attr}<-{owner.name}.{attr}"
            if hits:
                r.bad(
                    fn,
                    f"{fn.qualname} keeps a reference to {owner.name}.{attr} ('{ast.unparse(n)[:80]}'), but {hits[0].qualname} assigns a NEW object to that attribute: "
                    "after that call the stored reference still shows the old contents (e.g. a finder created before backport()/clear() keeps returning the old vertices)",
                    n,
                    key=key,
                )
            else:
                r.ok(fn, f"stores {owner.name}.{attr}, which no method rebinds", key=key)
    return r


def _stores_param(callee: FuncInfo, idx: int) -> bool:
    """Does the method keep (not copy) its idx-th parameter in self state: self.x = p, self.x[i] = p, self.x.append(p)?"""
    if idx >= len(callee.params):
        return False
    p = callee.params[idx]
    selfname = callee.params[0]
    for n in walk_shallow(callee.node):
        if isinstance(n, ast.Assign) and isinstance(n.value, ast.Name) and n.value.id == p:
            for t in n.targets:
                base = t
                while isinstance(base, (ast.Subscript, ast.Attribute)):
                    base = base.value
                if isinstance(base, ast.Name) and base.id == selfname and not isinstance(t, ast.Name):
                    return True
        if isinstance(n, ast.Call) and isinstance(n.func, ast.Attribute) and n.func.attr in ("append", "add", "insert") and any(isinstance(a, ast.Name) and a.id == p for a in n.args):
            base = n.func.value
            while isinstance(base, (ast.Subscript, ast.Attribute)):
                base = base.value
            if isinstance(base, ast.Name) and base.id == selfname:
                return True
    return False


def shared_parts_rule(repo: Repo, prop: str, rule_id: str, floor: int = 3) -> RuleRun:
    """One freshly created transformable object (an edge-data record, a face, ...) must go into ONE slot: if the same object is
    attached to several slots of an entity (inside a loop, or by repeated calls), the entity's `parts` list contains it
    several times and every transformation is applied to it that many times."""
    r = RuleRun(prop, rule_id, floor=floor, what="a freshly created element is attached to one slot only (no object shared between the slots an entity transforms part by part)")
    elem = repo.cls("base.element.ElementBase")
    for fn in sorted(repo.all_functions(), key=lambda f: f.qualname):
        env = None
        # names bound exactly once, outside loops, to a fresh element
        fresh: Dict[str, ast.AST] = {}
        counts: Dict[str, int] = {}
        for n in ast.walk(fn.node):
            if isinstance(n, (ast.Assign, ast.AnnAssign, ast.AugAssign, ast.For, ast.comprehension, ast.NamedExpr, ast.With)):
                tg = []
                if isinstance(n, ast.Assign):
                    tg = n.targets
                elif isinstance(n, (ast.AnnAssign, ast.AugAssign, ast.NamedExpr)):
                    tg = [n.target]
                elif isinstance(n, (ast.For, ast.comprehension)):
                    tg = [n.target]
                for t in tg:
                    for x in ast.walk(t):
                        if isinstance(x, ast.Name):
                            counts[x.id] = counts.get(x.id, 0) + 1
        # ancestors of every node of the function (nested functions excluded): loops and branch arms
        LOOPS = (ast.For, ast.While, ast.ListComp, ast.GeneratorExp, ast.SetComp, ast.DictComp)
        loops_of: Dict[int, Tuple[int, ...]] = {}
        arms_of: Dict[int, Tuple[Tuple[int, str], ...]] = {}

        def index(node, loops, arms):
            for field, value in ast.iter_fields(node):
                children = value if isinstance(value, list) else [value]
                for child in children:
                    if not isinstance(child, ast.AST) or isinstance(child, (ast.FunctionDef, ast.Lambda, ast.ClassDef)):
                        continue
                    lp = loops + ((id(node),) if isinstance(node, LOOPS) and field not in ("iter", "test") else ())
                    ar = arms + (((id(node), field),) if isinstance(node, (ast.If, ast.IfExp, ast.Try)) and field in ("body", "orelse", "handlers") else ())
                    loops_of[id(child)] = lp
                    arms_of[id(child)] = ar
                    index(child, lp, ar)

        index(fn.node, (), ())
        for st in ast.walk(fn.node):
            if isinstance(st, ast.Assign) and id(st) in loops_of and len(st.targets) == 1 and isinstance(st.targets[0], ast.Name) and isinstance(st.value, ast.Call) and counts.get(st.targets[0].id) == 1:
                if env is None:
                    env = TypeEnv(repo, fn)
                cls = st_cls(env.type_of(st.value))
                if cls is not None and repo.is_subclass(cls, elem):
                    fresh[st.targets[0].id] = st
        if not fresh:
            continue
        uses: Dict[str, List[Tuple[ast.Call, bool, FuncInfo]]] = {}
        for child in ast.walk(fn.node):
            if isinstance(child, ast.Call) and id(child) in loops_of:
                named = [(i, a) for i, a in enumerate(child.args) if isinstance(a, ast.Name) and a.id in fresh]
                if not named:
                    continue
                callees, _ = env.resolve_call(child)
                for i, a in named:
                    in_loop = bool(set(loops_of[id(child)]) - set(loops_of[id(fresh[a.id])]))  # a loop around the use that does not re-create the object
                    for c in callees:
                        off = 1 if (c.cls is not None and not c.is_staticmethod and isinstance(child.func, ast.Attribute)) else 0
                        if c.name == "__init__":
                            off = 1
                        if _stores_param(c, i + off):
                            uses.setdefault(a.id, []).append((child, in_loop, c))

        def exclusive(c1, c2) -> bool:
            """two uses in different arms of one if / try: at most one of them runs"""
            a1, a2 = dict(arms_of[id(c1)]), dict(arms_of[id(c2)])
            return any(k in a2 and a2[k] != f for k, f in a1.items())

        nth: Dict[str, int] = {}
        for name, st in sorted(fresh.items(), key=lambda kv: kv[1].lineno):
            us = uses.get(name, [])
            if not us:
                continue
            calls = []
            for c, _, _ in us:
                if all(c is not k for k in calls):
                    calls.append(c)
            shared = any(lp for _, lp, _ in us) or any(not exclusive(calls[i], calls[j]) for i in range(len(calls)) for j in range(i + 1, len(calls)))
            cls = st_cls(env.type_of(st.value))
            r.check(
                not shared,
                fn,
                f"the {cls.name} created once is attached once ({us[0][2].qualname})",
                f"{fn.qualname} creates one {cls.name} ('{ast.unparse(st)[:70]}') and attaches that same object {'in a loop' if any(lp for _, lp, _ in us) else str(len(us)) + ' times'} "
                f"through {us[0][2].qualname}: the slots share it, the entity's parts list contains it several times, and rotate/mirror/scale is applied to it once per slot "
                "(e.g. the axis of an Angle edge is rotated four times)",
                us[0][0],
                key=_nth_key(nth, f"fresh:{cls.name}->{us[0][2].name}"),
            )
    return r


def _nth_key(seen: Dict[str, int], base: str) -> str:
    seen[base] = seen.get(base, 0) + 1
    return base if seen[base] == 1 else f"{base}#{seen[base]}"


def coordinate_store_rule(repo: Repo, prop: str, rule_id: str, floor: int = 1) -> RuleRun:
    """A method that writes coordinates it was handed into a point of its object (``<self...>.position = ...``) must store
    a private copy: ``np.asarray`` of an ndarray is the caller's array itself. Point.translate / shear change ``position`` in
    place, so two entities updated from the same array (two operations sharing a mesh vertex, after Mesh.backport) would
    move together from then on."""
    from .effects import Effects

    eff = Effects(repo)
    r = RuleRun(prop, rule_id, floor=floor, what="coordinates handed to a method are stored as private copies (np.array), never as the caller's array (np.asarray), in attributes that are later modified in place")
    elem = repo.cls("base.element.ElementBase")
    array_types = ("PointType", "PointListType", "VectorType", "NPPointType", "NPPointListType", "NPVectorType")
    # attributes modified in place somewhere in the element hierarchy
    inplace = set()
    for cls in [elem, *repo.subclasses(elem)]:
        for m in cls.methods.values():
            for a in eff.mutated_self_attrs(m):
                inplace.add(a.split(".", 1)[1])
    for cls in [elem, *sorted(repo.subclasses(elem), key=lambda c: c.qualname)]:
        for m in sorted(cls.methods.values(), key=lambda f: f.name):
            if not m.params or m.is_staticmethod or m.name == "__init__":
                continue
            arr = {a.arg for a in m.node.args.args[1:] if a.annotation is not None and any(t in ast.unparse(a.annotation) for t in array_types)}
            if not arr:
                continue
            alias: Dict[str, set] = {p: {p} for p in arr}
            selfname = m.params[0]

            def bind_target(t, rs):
                for x in ast.walk(t):
                    if isinstance(x, ast.Name):
                        alias.setdefault(x.id, set()).update(rs)

            k = 0
            for n in ast.walk(m.node):
                if isinstance(n, (ast.For, ast.comprehension)):
                    it = n.iter
                    while isinstance(it, ast.Call) and (attr_chain(it.func) or "") in ("enumerate", "zip", "reversed", "list", "iter") and it.args:
                        rs = set()
                        for a in it.args:
                            rs |= eff.roots(a, alias)
                        bind_target(n.target, rs)
                        it = it.args[0]
                    bind_target(n.target, eff.roots(it, alias))
            for n in ast.walk(m.node):
                if not isinstance(n, ast.Assign):
                    continue
                for t in n.targets:
                    if not isinstance(t, ast.Attribute):
                        continue
                    base = t
                    while isinstance(base, (ast.Attribute, ast.Subscript)):
                        base = base.value
                    if not (isinstance(base, ast.Name) and base.id == selfname):
                        continue
                    if t.attr not in inplace:
                        continue
                    rs = eff.roots(n.value, alias) & arr
                    k += 1
                    r.check(
                        not rs,
                        m,
                        f"'{ast.unparse(t)[:50]}' receives a private copy",
                        f"{m.qualname} stores the caller's array ({sorted(rs)[0] if rs else ''}) in '{ast.unparse(t)}' without copying it ('{ast.unparse(n.value)[:60]}'), and "
                        f"'{t.attr}' is modified in place elsewhere (translate/shear use +=): entities updated from one array - e.g. two operations sharing a vertex after "
                        "Mesh.backport() - share storage, and moving one moves the other",
                        n,
                        key=f"store:{t.attr}#{k}",
                    )
    return r


# functions that change an object they are handed, confirmed by reading (one line of reason each)
MAY_MUTATE_ARGUMENT = {
    ("construct.operations.operation.Operation._project_update", "edge"): "the edge is the operation's own edge data; adding a label to it is the purpose",
    ("grading.grading.Grading.add_chop", "chop"): "chop.calculate() stores the resolved values in the chop (its results cache)",
    ("items.wires.wire.Wire.add_chop", "chop"): "same as Grading.add_chop",
    ("lists.block_list.BlockList.add", "block"): "registers neighbours on the block being added",
    ("lists.block_list.BlockList.update_neighbours", "new_block"): "registers neighbours on the block being added",
    ("lists.vertex_list.VertexList.add", "slave_patches"): "sorts the list Mesh._add_vertices builds freshly for this call (checked by C05.SLAVE-ONLY)",
    ("lists.vertex_list.VertexList.find_duplicated", "slave_patches"): "same list as VertexList.add",
    ("modify.reorient.viewpoint.ViewpointReorienter.reorient", "operation"): "re-orienting the given operation in place is the purpose",
    ("lists.vertex_list.VertexList._reuse", "vertex"): "the vertex is the list's own object; merging the labels of one more corner into it is the purpose (fix 4836d22)",
}


def argument_mutation_rule(repo: Repo, prop: str, rule_id: str, floor: int = 5) -> RuleRun:
    """Who may change what it is handed: the interprocedural may-mutate analysis lists every function that modifies one of
    its parameters in place (list.sort/append, +=, item stores, through callees). Eight are confirmed by reading; any other one
    changes the caller's object behind its back - e.g. a label list sorted in place and kept, so that two edges projected with
    the same list share their labels from then on."""
    from .effects import Effects

    eff = Effects(repo)
    r = RuleRun(prop, rule_id, floor=floor, what="no function modifies an object it was handed, except the eight confirmed ones (table with reasons)")
    seen = set()
    for fn in sorted(repo.all_functions(), key=lambda f: f.qualname):
        for p in sorted(eff.mutated_params(fn)):
            seen.add((fn.qualname, p))
            if (fn.qualname, p) in MAY_MUTATE_ARGUMENT:
                r.ok(fn, f"modifies '{p}': {MAY_MUTATE_ARGUMENT[(fn.qualname, p)]}", key=f"mutates:{p}")
                continue
            w = eff.witness.get((fn.qualname, p))
            r.bad(
                fn,
                f"{fn.qualname} modifies its argument '{p}' in place ('{ast.unparse(w)[:60] if w is not None else '?'}'): the caller's object changes, and if it is also kept (returned / stored) "
                "every other user of that object changes with it",
                w if w is not None else fn.node,
                key=f"mutates:{p}",
            )
    # ... and transformable entities handed to a constructor / factory are not moved or re-indexed in place: the element's own
    # transformation methods re-bind coordinates part by part, which the array-level analysis above does not see
    elem = repo.cls("base.element.ElementBase")
    IN_PLACE = {"translate", "rotate", "scale", "mirror", "transform", "shear", "invert", "reorient", "shift", "update", "project", "add_edge", "remove_edges", "set_patch", "chop", "unchop", "project_edge", "project_corner", "project_side"}
    seen_keys = {f.construct for f in r.findings} | {i.get("construct") if isinstance(i, dict) else getattr(i, "construct", None) for i in r.instances}
    for fn in sorted(repo.all_functions(), key=lambda f: f.qualname):
        first = 1 if fn.cls is not None and not fn.is_staticmethod else 0
        env = None
        done = set()
        for c in ast.walk(fn.node):
            if isinstance(c, ast.Call) and isinstance(c.func, ast.Attribute) and c.func.attr in IN_PLACE and isinstance(c.func.value, ast.Name) and c.func.value.id in fn.params[first:] and c.func.value.id not in done:
                p = c.func.value.id
                # a parameter re-bound to a copy before the call is a local object from then on
                rebound = any(isinstance(st, ast.Assign) and any(isinstance(t, ast.Name) and t.id == p for t in st.targets) and st.lineno < c.lineno for st in ast.walk(fn.node))
                if rebound:
                    continue
                if env is None:
                    env = TypeEnv(repo, fn)
                cls = st_cls(env.type_of(c.func.value))
                if cls is None or not repo.is_subclass(cls, elem):
                    continue
                done.add(p)
                if f"{fn.qualname}::mutates:{p}" in seen_keys:
                    continue
                if (fn.qualname, p) in MAY_MUTATE_ARGUMENT:
                    r.ok(fn, f"modifies '{p}': {MAY_MUTATE_ARGUMENT[(fn.qualname, p)]}", key=f"mutates:{p}")
                    continue
                r.bad(
                    fn,
                    f"{fn.qualname} calls {p}.{c.func.attr}(...) on the {cls.name} it was handed: the caller's entity is moved / changed in place (a face used to build one operation is not where the caller left it "
                    "when the next operation is built from it) - work on a copy()",
                    c,
                    key=f"mutates:{p}",
                )
    return r


def escaping_view_rule(repo: Repo, prop: str, rule_id: str, module_prefixes, floor: int = 2) -> RuleRun:
    """Constructors that keep coordinates for later - in an attribute or in a closure (the position function of a clamp) - must
    keep their own copy. ``np.array(p)`` copies; ``np.asarray(p)`` of an ndarray IS the caller's array. Callers pass
    ``vertex.position``, which Vertex.move_to / backport change in place: the kept geometry (a clamp's line, a link's origin) would
    move with the vertex. Judged: array-annotated parameters converted with a copying or a non-copying call and then escaping;
    parameters captured without any conversion are counted in a note (not judged)."""
    from .effects import Effects

    eff = Effects(repo)
    r = RuleRun(prop, rule_id, floor=floor, what="coordinates a constructor keeps (attribute or closure) are private copies (np.array), not views of the caller's array (np.asarray)")
    array_types = ("PointType", "PointListType", "VectorType", "NPPointType", "NPPointListType", "NPVectorType")
    raw = 0
    raw_list = []
    for fn in sorted(repo.all_functions(), key=lambda f: f.qualname):
        short = fn.module.name[len("classy_blocks.") :] if fn.module.name.startswith("classy_blocks.") else fn.module.name
        if fn.cls is None or fn.name != "__init__" or not any(short.startswith(p) for p in module_prefixes):
            continue
        arr = {a.arg for a in fn.node.args.args[1:] if a.annotation is not None and any(t in ast.unparse(a.annotation) for t in array_types)}
        if not arr:
            continue
        # alias environment in statement order (top level; conditional re-bindings join)
        alias: Dict[str, set] = {p: {p} for p in arr}
        converted: Dict[str, ast.AST] = {}
        for st in fn.node.body:
            for n in [st, *walk_shallow(st)] if not isinstance(st, (ast.FunctionDef,)) else []:
                if isinstance(n, ast.Assign) and len(n.targets) == 1 and isinstance(n.targets[0], ast.Name):
                    rs = eff.roots(n.value, alias)
                    strong = n in fn.node.body
                    name = n.targets[0].id
                    if isinstance(n.value, ast.Call) and n.value.args and isinstance(n.value.args[0], ast.Name) and n.value.args[0].id in arr:
                        converted[name] = n
                    alias[name] = set(rs) if strong else alias.get(name, set()) | rs
        # escapes: names used inside nested functions / lambdas, or values stored on self - judged by what they alias
        arr_pts = {a.arg for a in fn.node.args.args[1:] if a.arg in arr and "Callable" not in ast.unparse(a.annotation)}
        escapes: List[Tuple[str, str, Set[str], ast.AST]] = []
        for n in ast.walk(fn.node):
            if isinstance(n, (ast.Lambda, ast.FunctionDef)) and n is not fn.node:
                own = {a.arg for a in n.args.args}
                seen_names = set()
                for x in ast.walk(n):
                    if isinstance(x, ast.Name) and isinstance(x.ctx, ast.Load) and x.id in alias and x.id not in own and x.id not in seen_names:
                        seen_names.add(x.id)
                        escapes.append((x.id, "in a closure", alias.get(x.id, set()) & arr_pts, n))
            if isinstance(n, ast.Assign) and any(isinstance(t, ast.Attribute) and attr_chain(t.value) == fn.params[0] for t in n.targets):
                tgt = next(t for t in n.targets if isinstance(t, ast.Attribute))
                touched = {x.id for x in ast.walk(n.value) if isinstance(x, ast.Name) and x.id in alias and alias.get(x.id, set()) & arr_pts}
                if touched or (eff.roots(n.value, alias) & arr_pts):
                    escapes.append((f"self.{tgt.attr}", "in an attribute", eff.roots(n.value, alias) & arr_pts, n))
        for name, how, roots, where in escapes:
            key = f"kept:{name}"
            if (fn.qualname, name) in SHARED_BY_DESIGN:
                r.ok(fn, f"'{name}' is shared storage by design ({SHARED_BY_DESIGN[(fn.qualname, name)]})", key=key)
                continue
            conv = converted.get(name)
            r.check(
                not roots,
                fn,
                f"'{name}' kept {how} is a private copy",
                f"{fn.qualname} keeps '{name}' for later ({how})"
                + (f" after '{ast.unparse(conv)[:60]}', which does not copy an ndarray" if conv is not None else " without copying it")
                + f": the kept geometry is the caller's own array ({sorted(roots)[0] if roots else ''}). Callers pass vertex.position, which backport()/move_to change in place - the clamp's "
                "line / circle centre / the link's reference point then moves with the vertex between two optimize() calls (its siblings copy with np.array)",
                conv if conv is not None else where,
                key=key,
            )
    return r


# (constructor, kept name) -> why the constructor is meant to keep the caller's array
SHARED_BY_DESIGN = {
    ("optimize.grid.GridBase.__init__", "self.points"): "the grid's one point array; GridBase.update writes it in place for cells and junctions",
    ("optimize.cell.CellBase.__init__", "self.grid_points"): "a cell reads the grid's point array",
    ("optimize.junction.Junction.__init__", "self.points"): "a junction reads the grid's point array",
    ("modify.reorient.viewpoint.Triangle.__init__", "self.points"): "internal helper of the reorienter, built from arrays it creates itself (np.take of the hull's simplices); never handed a caller's array",
}


def class_state_rule(repo: Repo, prop: str, rule_id: str, floor: int = 5) -> RuleRun:
    """State shared by all instances: a mutable container bound in the CLASS body (``deleted: Set = set()``,
    ``corner_indexes = deque(range(4))``) that a method changes in place through ``self`` is one object for every instance - a
    delete in one mesh removes the block from every other mesh, a rotation of one face's index deque rotates them all."""
    from .effects import Effects

    eff = Effects(repo)
    r = RuleRun(prop, rule_id, floor=floor, what="no method changes a class-level mutable container in place (it would be shared by all instances)")
    for cls in sorted(repo.classes.values(), key=lambda c: c.qualname):
        for name, expr in sorted(cls.class_vars.items()):
            mutable = isinstance(expr, (ast.List, ast.Dict, ast.Set)) or (isinstance(expr, ast.Call) and (attr_chain(expr.func) or "").split(".")[-1] in ("set", "list", "dict", "deque", "defaultdict", "OrderedDict"))
            if not mutable:
                continue
            rebound_in_init = any(
                isinstance(n, (ast.Assign, ast.AnnAssign)) and any(isinstance(t, ast.Attribute) and t.attr == name for t in (n.targets if isinstance(n, ast.Assign) else [n.target]))
                for c in [*repo.mro(cls), *repo.subclasses(cls)]
                for m in [c.methods.get("__init__")]
                if m is not None
                for n in ast.walk(m.node)
            )
            writers = [m for c in [cls, *repo.subclasses(cls)] for m in c.methods.values() if f"self.{name}" in eff.mutated_self_attrs(m)]
            r.check(
                not writers or rebound_in_init,
                cls,
                f"class-level {name} is never changed in place",
                f"{cls.name}.{name} is a mutable container created once in the class body ('{ast.unparse(expr)[:40]}') and {writers[0].qualname if writers else ''} changes it in place through self: all "
                f"instances of {cls.name} share it - what one object records (a deleted operation, a rotated index order) shows up in every other one",
                writers[0].node if writers else cls.node,
                key=f"classvar:{name}",
            )
    return r


# ---------------------------------------------------------------------------------------------------------------------
def inplace_dtype_rule(repo: Repo, prop: str, rule_id: str, floor: int = 6) -> RuleRun:
    """Coordinates written INTO an existing array (``a[i] = x``, ``a[:] = x``, ``a += x``) are converted to that array's dtype.
    ``np.array([3, 3, 3])`` - what a user gets who types whole-number coordinates - is an integer array: every position stored
    into it in place is truncated towards zero without any error. So every attribute that is stored into in place must be
    created with an explicit floating dtype (``np.array(x, dtype=DTYPE)``) wherever its class defines it; attributes that are
    merely re-bound (``self.leader = position``) take the dtype of the new value and are fine."""
    r = RuleRun(prop, rule_id, floor=floor, what="arrays that are written into in place (element, slice or augmented assignment) are created with an explicit float dtype - an integer array typed by the user would truncate the coordinates stored into it")
    # attribute name -> list of (class, defining value) over the whole package
    defs: Dict[str, List[Tuple[Any, ast.expr, Any]]] = {}
    for fn in repo.all_functions():
        if fn.cls is None:
            continue
        for n in ast.walk(fn.node):
            if isinstance(n, (ast.Assign, ast.AnnAssign)) and n.value is not None:
                for t in n.targets if isinstance(n, ast.Assign) else [n.target]:
                    if isinstance(t, ast.Attribute) and isinstance(t.value, ast.Name) and t.value.id == "self":
                        defs.setdefault(t.attr, []).append((fn.cls, n.value, fn))

    def creation(value: ast.expr) -> str:
        """'float' (explicit float dtype), 'untyped' (np.array/asarray of something, no dtype), 'other'"""
        if isinstance(value, ast.Call):
            nm = attr_chain(value.func) or ""
            if nm.split(".")[-1] in ("array", "asarray", "asanyarray") and nm.split(".")[0] in ("np", "numpy"):
                dt = [k for k in value.keywords if k.arg == "dtype"]
                if len(value.args) >= 2 or dt:
                    return "float"
                inner = value.args[0] if value.args else None
                # a list of float arrays (positions of Point objects) is float already
                if inner is not None and any(isinstance(x, ast.Attribute) and x.attr == "position" for x in ast.walk(inner)):
                    return "float"
                return "untyped"
            if nm.split(".")[-1] in ("zeros", "ones", "empty", "full", "linspace", "average", "mean"):
                return "float"
        return "other"

    seen = 0
    nth: Dict[str, int] = {}
    for fn in sorted(repo.all_functions(), key=lambda f: f.qualname):
        env = None
        for n in ast.walk(fn.node):
            tgt = None
            if isinstance(n, ast.Assign):
                for t in n.targets:
                    if isinstance(t, ast.Subscript) and isinstance(t.value, ast.Attribute):
                        tgt = t.value
            elif isinstance(n, ast.AugAssign):
                if isinstance(n.target, ast.Subscript) and isinstance(n.target.value, ast.Attribute):
                    tgt = n.target.value
                elif isinstance(n.target, ast.Attribute):
                    tgt = n.target
            if tgt is None:
                continue
            cands = defs.get(tgt.attr, [])
            if env is None:
                env = TypeEnv(repo, fn)
            owner = st_cls(env.type_of(tgt.value))
            if owner is not None:
                mro = repo.mro(owner)
                narrowed = [c for c in cands if c[0] in mro or owner in repo.mro(c[0])]
                if narrowed:
                    cands = narrowed
            kinds = [(creation(v), c, f_) for c, v, f_ in cands]
            arrays = [k for k in kinds if k[0] != "other"]
            if not arrays:
                continue  # a list, a dict, a parameter handed through: not an array this package creates
            seen += 1
            untyped = [k for k in arrays if k[0] == "untyped"]
            key = _nth_key(nth, f"store:{tgt.attr}")
            r.check(
                not untyped,
                fn,
                f"'{ast.unparse(n)[:60]}': .{tgt.attr} is created with an explicit dtype ({', '.join(sorted({k[1].name for k in arrays}))})",
                f"{fn.qualname} stores into .{tgt.attr} in place ('{ast.unparse(n)[:70]}') but "
                + ", ".join(f"{k[1].name}.{k[2].name} creates it as np.array(...) without a dtype" for k in untyped[:2])
                + ": for whole-number input (np.array([3, 3, 3]) is an integer array) every position stored into it is truncated towards zero, silently - re-bind the attribute or create it with dtype=float",
                n,
                key=key,
            )
    r.require(seen >= floor, f"only {seen} in-place stores into array attributes found")
    return r


# ---------------------------------------------------------------------------------------------------------------------
def inplace_on_view_rule(repo: Repo, prop: str, rule_id: str, module_prefixes, floor: int = 2) -> RuleRun:
    """A query must not change what it queries. Methods like ``discretize()`` / ``point_array`` hand out VIEWS of the object's own
    coordinate array (a slice, ``np.asarray`` of it, or the attribute itself); an in-place operation on such a value (``v -= p``,
    ``v[i] = ...``, ``out=v``) writes into the object. Every local that is bound to a view-returning call on ``self`` or to a slice
    of a ``self`` array, and is then updated in place, is reported."""
    r = RuleRun(prop, rule_id, floor=floor, what="no in-place update of a value that is a view of the object's own coordinate array (obtained from a view-returning method or a slice of an attribute)")

    def is_view_expr(e: ast.expr, selfname: str) -> bool:
        while isinstance(e, ast.Subscript):
            e = e.value
        if isinstance(e, ast.Call) and (attr_chain(e.func) or "").split(".")[-1] in ("asarray", "asanyarray", "squeeze", "reshape", "ravel", "transpose") and e.args:
            return is_view_expr(e.args[0], selfname)
        ch = attr_chain(e) or ""
        return ch.startswith(selfname + ".") and ch.split(".")[-1] in ("points", "position", "positions", "array", "point_array")

    view_funcs = set()
    for fn in repo.all_functions():
        if fn.cls is None or not fn.params:
            continue
        selfname = fn.params[0]
        locals_view = set()
        for n in walk_shallow(fn.node):
            if isinstance(n, ast.Assign) and len(n.targets) == 1 and isinstance(n.targets[0], ast.Name) and is_view_expr(n.value, selfname):
                locals_view.add(n.targets[0].id)
        for n in walk_shallow(fn.node):
            if isinstance(n, ast.Return) and n.value is not None:
                v = n.value
                if is_view_expr(v, selfname) or (isinstance(v, ast.Name) and v.id in locals_view):
                    view_funcs.add(fn.qualname)
    for fn in sorted(repo.all_functions(), key=lambda f: f.qualname):
        short = fn.module.name[len("classy_blocks.") :] if fn.module.name.startswith("classy_blocks.") else fn.module.name
        if fn.cls is None or not fn.params or not any(short.startswith(p) for p in module_prefixes):
            continue
        selfname = fn.params[0]
        env = None
        views = {}
        for n in walk_shallow(fn.node):
            if isinstance(n, ast.Assign) and len(n.targets) == 1 and isinstance(n.targets[0], ast.Name):
                v = n.value
                src = None
                if is_view_expr(v, selfname):
                    src = ast.unparse(v)[:40]
                elif isinstance(v, ast.Call) and isinstance(v.func, ast.Attribute):
                    if env is None:
                        env = TypeEnv(repo, fn)
                    callees, _ = env.resolve_call(v)
                    if callees and any(c.qualname in view_funcs for c in callees):
                        src = ast.unparse(v)[:40]
                elif isinstance(v, ast.Attribute) and isinstance(v.value, ast.Name) and v.value.id == selfname:
                    m_ = repo.find_method(fn.cls, v.attr)
                    if m_ is not None and m_.is_property and m_.qualname in view_funcs:
                        src = ast.unparse(v)[:40]
                if src is not None:
                    views[n.targets[0].id] = (n, src)
        if not views:
            continue
        for name, (st, src) in sorted(views.items()):
            writes = []
            for n in walk_shallow(fn.node):
                if isinstance(n, ast.AugAssign):
                    t = n.target
                    while isinstance(t, ast.Subscript):
                        t = t.value
                    if isinstance(t, ast.Name) and t.id == name and n.lineno > st.lineno:
                        writes.append(n)
                elif isinstance(n, ast.Assign):
                    for t in n.targets:
                        if isinstance(t, ast.Subscript):
                            b = t
                            while isinstance(b, ast.Subscript):
                                b = b.value
                            if isinstance(b, ast.Name) and b.id == name and n.lineno > st.lineno:
                                writes.append(n)
                elif isinstance(n, ast.Call):
                    for k in n.keywords:
                        if k.arg == "out" and isinstance(k.value, ast.Name) and k.value.id == name:
                            writes.append(n)
            r.check(
                not writes,
                fn,
                f"'{name} = {src}' (a view of the object's array) is only read",
                f"{fn.qualname} binds '{name}' to {src} - a view of the object's own coordinate array - and then updates it in place ('{ast.unparse(writes[0])[:50] if writes else ''}'): the query moves the object it queries "
                "(every later query, get_point, discretize and edge built on it sees displaced coordinates)",
                writes[0] if writes else st,
                key=f"view:{name}",
            )
    return r

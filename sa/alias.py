"""Stale aliases: an object stores a reference to ANOTHER object's container attribute (self.x = other.items, directly or
through a property that returns an inner attribute) while some method of the owner REBINDS that attribute
(self.items = [] instead of self.items.clear()): after the rebind the stored reference describes the old state.
Each half alone is harmless; the rule reports the combination, at the store."""

from __future__ import annotations

import ast
from typing import Dict, List, Optional, Tuple

from .model import FuncInfo, Repo, TypeEnv, st_cls, walk_shallow
from .report import RuleRun


def rebound_attributes(repo: Repo) -> Dict[Tuple[str, str], List[FuncInfo]]:
    out: Dict[Tuple[str, str], List[FuncInfo]] = {}
    for fn in repo.all_functions():
        if fn.cls is None or fn.name in ("__init__", "__post_init__", "__new__") or not fn.params or fn.is_staticmethod:
            continue
        for n in walk_shallow(fn.node):
            if isinstance(n, (ast.Assign, ast.AnnAssign)) and getattr(n, "value", None) is not None:
                tg = n.targets if isinstance(n, ast.Assign) else [n.target]
                for t in tg:
                    for el in (t.elts if isinstance(t, ast.Tuple) else [t]):
                        if isinstance(el, ast.Attribute) and isinstance(el.value, ast.Name) and el.value.id == fn.params[0]:
                            out.setdefault((fn.cls.qualname, el.attr), []).append(fn)
    return out


def _owner_attr(repo: Repo, env: TypeEnv, v: ast.Attribute, depth: int = 0) -> Optional[Tuple[object, str]]:
    owner = st_cls(env.type_of(v.value))
    if owner is None or depth > 3:
        return None
    m = repo.find_method(owner, v.attr)
    if m is not None and m.is_property:
        rets = [x for x in walk_shallow(m.node) if isinstance(x, ast.Return)]
        if len(rets) == 1 and isinstance(rets[0].value, ast.Attribute):
            return _owner_attr(repo, TypeEnv(repo, m), rets[0].value, depth + 1)
        return None
    if m is not None:
        return None
    return owner, v.attr


def stale_alias_rule(repo: Repo, prop: str, rule_id: str, floor: int = 2) -> RuleRun:
    r = RuleRun(prop, rule_id, floor=floor, what="no object keeps a reference to another object's attribute that one of the owner's methods rebinds (stale after clear()/re-assembly/transformation)")
    rebound = rebound_attributes(repo)
    for fn in sorted(repo.all_functions(), key=lambda f: f.qualname):
        if fn.cls is None or not fn.params or fn.is_staticmethod:
            continue
        env = None
        for n in walk_shallow(fn.node):
            if not (isinstance(n, (ast.Assign, ast.AnnAssign)) and getattr(n, "value", None) is not None and isinstance(n.value, ast.Attribute)):
                continue
            tg = n.targets if isinstance(n, ast.Assign) else [n.target]
            stores = [t for t in tg if isinstance(t, ast.Attribute) and isinstance(t.value, ast.Name) and t.value.id == fn.params[0]]
            if not stores:
                continue
            if env is None:
                env = TypeEnv(repo, fn)
            oa = _owner_attr(repo, env, n.value)
            if oa is None:
                continue
            owner, attr = oa
            if isinstance(n.value.value, ast.Name) and n.value.value.id == fn.params[0] and owner is fn.cls:
                # self.a = self.b : same object, both sides move together when b is rebound by self's own methods? no - still an alias,
                # but of the object's own state; the rebinding method belongs to the same class and is judged there
                pass
            hits = [f for c in [*repo.mro(owner), *repo.subclasses(owner)] for f in rebound.get((c.qualname, attr), [])]
            hits = [f for f in hits if f is not fn]
            key = f"store:{stores[0].attr}<-{owner.name}.{attr}"
            if hits:
                r.bad(
                    fn,
                    f"{fn.qualname} keeps a reference to {owner.name}.{attr} ('{ast.unparse(n)[:80]}'), but {hits[0].qualname} assigns a NEW object to that attribute: "
                    "after that call the stored reference still shows the old contents (e.g. a finder created before backport()/clear() keeps returning the old vertices)",
                    n,
                    key=key,
                )
            else:
                r.ok(fn, f"stores {owner.name}.{attr}, which no method rebinds", key=key)
    return r

"""Quad-map topology: orientation consistency, conformity and chop-coverage (union-find)."""

from __future__ import annotations

from typing import Dict, FrozenSet, List, Sequence, Set, Tuple


class UF:
    def __init__(self):
        self.p: Dict = {}

    def find(self, x):
        self.p.setdefault(x, x)
        while self.p[x] != x:
            self.p[x] = self.p[self.p[x]]
            x = self.p[x]
        return x

    def union(self, a, b):
        ra, rb = self.find(a), self.find(b)
        if ra != rb:
            self.p[ra] = rb


def quad_edges(quad: Sequence[int]) -> List[Tuple[int, int]]:
    return [(quad[i], quad[(i + 1) % 4]) for i in range(4)]


def orientation_report(quad_map: Sequence[Sequence[int]]):
    """Returns (problems, stats). An interior edge must be shared by exactly two quads and be
    traversed in opposite directions by them (consistent orientation of the whole sketch)."""
    problems: List[str] = []
    directed: Dict[Tuple[int, int], List[int]] = {}
    undirected: Dict[FrozenSet[int], List[int]] = {}
    for qi, quad in enumerate(quad_map):
        if len(quad) != 4 or len(set(quad)) != 4:
            problems.append(f"quad {qi} = {list(quad)} does not have four distinct points")
            continue
        for a, b in quad_edges(quad):
            directed.setdefault((a, b), []).append(qi)
            undirected.setdefault(frozenset((a, b)), []).append(qi)
    for e, qs in undirected.items():
        if len(qs) > 2:
            problems.append(f"edge {sorted(e)} belongs to {len(qs)} quads {qs} (non-manifold)")
    for (a, b), qs in directed.items():
        if len(qs) > 1:
            problems.append(f"quads {qs} traverse edge {a}->{b} in the same direction (one of them is flipped: lofts of opposite handedness)")
    used = {p for quad in quad_map for p in quad}
    if used and used != set(range(max(used) + 1)):
        problems.append(f"point indexes {sorted(set(range(max(used) + 1)) - used)} are not used by any quad")
    stats = {"quads": len(quad_map), "edges": len(undirected), "interior_edges": sum(1 for q in undirected.values() if len(q) == 2), "points": len(used)}
    return problems, stats


def families(quad_map: Sequence[Sequence[int]]) -> Dict:
    """(face, axis) families induced by shared edges: edges 0,2 of a face run along its axis 0,
    edges 1,3 along axis 1. Returns {root: set of (face, axis)}."""
    uf = UF()
    edge_owner: Dict[FrozenSet[int], List[Tuple[int, int]]] = {}
    for qi, quad in enumerate(quad_map):
        for k, (a, b) in enumerate(quad_edges(quad)):
            axis = k % 2
            uf.find((qi, axis))
            edge_owner.setdefault(frozenset((a, b)), []).append((qi, axis))
    for owners in edge_owner.values():
        for o in owners[1:]:
            uf.union(owners[0], o)
    fam: Dict = {}
    for qi in range(len(quad_map)):
        for axis in (0, 1):
            fam.setdefault(uf.find((qi, axis)), set()).add((qi, axis))
    return fam


def chop_coverage(quad_map: Sequence[Sequence[int]], chops: Sequence[Sequence[int]], order: Sequence[int] = None):
    """`chops[axis]` lists operation indexes; `order[i]` = face index of operation i (identity by
    default). Returns (uncovered families, families chopped more than once, out-of-range)."""
    n = len(quad_map)
    order = list(order) if order is not None else list(range(n))
    fam = families(quad_map)
    root_of = {m: r for r, ms in fam.items() for m in ms}
    hits: Dict = {r: [] for r in fam}
    bad_index: List[Tuple[int, int]] = []
    for axis in (0, 1):
        lst = chops[axis] if axis < len(chops) else []
        for i in lst:
            if not (0 <= i < len(order)):
                bad_index.append((axis, i))
                continue
            hits[root_of[(order[i], axis)]].append((axis, i))
    uncovered = [sorted(ms) for r, ms in fam.items() if not hits[r]]
    multiple = [(sorted(fam[r]), h) for r, h in hits.items() if len(h) > 1]
    return uncovered, multiple, bad_index

"""Closeness tests as an abstract value: which tolerance does a comparison apply, and is it absolute?

A condition that decides 'these two quantities coincide' is normalised to

    Close(lhs, rhs, atol, rtol, strict, negated)

from the idioms  norm(a - b) < T,  abs(a - b) <= T,  T > norm(a - b),  not (...),
np.isclose / np.allclose(a, b[, rtol, atol]) (numpy defaults rtol=1e-5, atol=1e-8) and
math.isclose(a, b[, rel_tol, abs_tol]) (defaults rel_tol=1e-9, abs_tol=0). Tolerances are folded to numbers with
the repository's own module constants (constants.TOL, ...). A *relative* part makes the acceptance band grow
with the magnitude of the operands - a coincidence test that the properties state as 'within the library's tolerance'
must be purely absolute.
"""

from __future__ import annotations

import ast
from dataclasses import dataclass
from typing import List, Optional

from .model import AnalysisError, Module, Repo, attr_chain

NORM_CALLS = {"norm", "f.norm", "functions.norm", "np.linalg.norm", "numpy.linalg.norm", "linalg.norm", "abs", "np.abs", "numpy.abs", "np.fabs", "math.fabs"}


@dataclass
class Close:
    node: ast.AST
    lhs: Optional[ast.expr]
    rhs: Optional[ast.expr]
    atol: Optional[float]
    rtol: float
    strict: bool
    negated: bool
    form: str
    atol_expr: str = ""
    magnitude: Optional[ast.expr] = None
    squared: bool = False
    tol_node: Optional[ast.expr] = None

    def describe(self) -> str:
        return f"{self.form}: atol={self.atol_expr or self.atol}, rtol={self.rtol}"


def fold(repo: Repo, mod: Module, expr: ast.expr, _depth: int = 0) -> Optional[float]:
    """Constant folding of a tolerance expression with the repository's module constants."""
    if _depth > 6:
        return None
    if isinstance(expr, ast.Constant) and isinstance(expr.value, (int, float)) and not isinstance(expr.value, bool):
        return float(expr.value)
    if isinstance(expr, ast.UnaryOp) and isinstance(expr.op, ast.USub):
        v = fold(repo, mod, expr.operand, _depth + 1)
        return -v if v is not None else None
    if isinstance(expr, ast.BinOp):
        a, b = fold(repo, mod, expr.left, _depth + 1), fold(repo, mod, expr.right, _depth + 1)
        if a is None or b is None:
            return None
        try:
            if isinstance(expr.op, ast.Mult):
                return a * b
            if isinstance(expr.op, ast.Div):
                return a / b
            if isinstance(expr.op, ast.Add):
                return a + b
            if isinstance(expr.op, ast.Sub):
                return a - b
            if isinstance(expr.op, ast.Pow):
                return a**b
        except (ZeroDivisionError, OverflowError):
            return None
        return None
    if isinstance(expr, (ast.Name, ast.Attribute)):
        tgt = repo.resolve_expr(mod, expr)
        if isinstance(tgt, tuple) and tgt and tgt[0] == "const":
            owner = tgt[2] if len(tgt) > 2 and isinstance(tgt[2], Module) else mod
            return fold(repo, owner, tgt[1], _depth + 1)
    return None


def _kw(call: ast.Call, name: str, pos: int) -> Optional[ast.expr]:
    for kw in call.keywords:
        if kw.arg == name:
            return kw.value
    if len(call.args) > pos:
        return call.args[pos]
    return None


def parse(repo: Repo, mod: Module, test: ast.expr) -> Optional[Close]:
    """Returns the closeness test `test` denotes, or None if it is not one."""
    negated = False
    node = test
    while isinstance(node, ast.UnaryOp) and isinstance(node.op, ast.Not):
        negated = not negated
        node = node.operand
    if isinstance(node, ast.Call):
        name = attr_chain(node.func) or ""
        short = name.split(".")[-1]
        if short in ("isclose", "allclose") and len(node.args) >= 2:
            numpy_like = not name.startswith("math.")
            if numpy_like:
                r_e, a_e = _kw(node, "rtol", 2), _kw(node, "atol", 3)
                rtol = fold(repo, mod, r_e) if r_e is not None else 1e-5
                atol = fold(repo, mod, a_e) if a_e is not None else 1e-8
            else:
                r_e, a_e = _kw(node, "rel_tol", 99), _kw(node, "abs_tol", 99)
                rtol = fold(repo, mod, r_e) if r_e is not None else 1e-9
                atol = fold(repo, mod, a_e) if a_e is not None else 0.0
            if rtol is None or atol is None:
                raise AnalysisError(f"tolerance arguments of '{ast.unparse(node)[:80]}' cannot be folded to numbers")
            return Close(test, node.args[0], node.args[1], atol, rtol, False, negated, name, ast.unparse(a_e) if a_e is not None else "")
        return None
    if isinstance(node, ast.Compare) and len(node.ops) == 1:
        op = node.ops[0]
        left, right = node.left, node.comparators[0]
        # orient as  magnitude OP tolerance
        def is_mag(e: ast.expr) -> bool:
            if isinstance(e, ast.BinOp) and isinstance(e.op, ast.Div):
                return is_mag(e.left)
            return isinstance(e, ast.Call) and (attr_chain(e.func) or "") in NORM_CALLS | {"f." + c for c in ()} or (isinstance(e, ast.Call) and (attr_chain(e.func) or "").split(".")[-1] in ("norm", "abs", "fabs"))

        def is_sq(e: ast.expr) -> bool:
            """a squared length: dot(d, d), d.dot(d), d @ d, sum(d**2), sum(d*d), norm(d)**2"""
            if isinstance(e, ast.Call):
                nm = (attr_chain(e.func) or "").split(".")[-1]
                if nm == "dot":
                    ops = list(e.args) if len(e.args) == 2 else ([e.func.value, e.args[0]] if isinstance(e.func, ast.Attribute) and len(e.args) == 1 else [])
                    return len(ops) == 2 and ast.dump(ops[0]) == ast.dump(ops[1])
                if nm == "sum" and e.args:
                    a0 = e.args[0]
                    if isinstance(a0, ast.BinOp) and isinstance(a0.op, ast.Pow) and isinstance(a0.right, ast.Constant) and a0.right.value == 2:
                        return True
                    if isinstance(a0, ast.BinOp) and isinstance(a0.op, ast.Mult) and ast.dump(a0.left) == ast.dump(a0.right):
                        return True
            if isinstance(e, ast.BinOp) and isinstance(e.op, ast.MatMult) and ast.dump(e.left) == ast.dump(e.right):
                return True
            if isinstance(e, ast.BinOp) and isinstance(e.op, ast.Pow) and isinstance(e.right, ast.Constant) and e.right.value == 2 and is_mag(e.left):
                return True
            return False

        def is_tol(e: ast.expr) -> bool:
            """a named tolerance constant of the repository or a small float literal"""
            if isinstance(e, ast.Constant):
                return isinstance(e.value, float) and 0 < e.value < 1e-3
            if isinstance(e, (ast.Name, ast.Attribute)):
                v = fold(repo, mod, e)
                return v is not None and 0 < v < 1e-3
            if isinstance(e, ast.BinOp):
                return is_tol(e.left) or is_tol(e.right)
            return False

        if not isinstance(op, (ast.Lt, ast.LtE, ast.Gt, ast.GtE)):
            return None
        squared = False
        if is_sq(left) or is_sq(right):
            squared = True
            mag, tol, less = (left, right, isinstance(op, (ast.Lt, ast.LtE))) if is_sq(left) else (right, left, isinstance(op, (ast.Gt, ast.GtE)))
        elif is_mag(left) or (is_tol(right) and not is_tol(left)):
            mag, tol, less = left, right, isinstance(op, (ast.Lt, ast.LtE))
        elif is_mag(right) or (is_tol(left) and not is_tol(right)):
            mag, tol, less = right, left, isinstance(op, (ast.Gt, ast.GtE))
        else:
            return None
        val = fold(repo, mod, tol)  # None: the tolerance is a run-time value (a parameter)
        if not less:
            negated = not negated  # 'norm > T' is the negation of 'norm <= T'
        strict = isinstance(op, (ast.Lt, ast.Gt)) if less else not isinstance(op, (ast.Lt, ast.Gt))
        relative = isinstance(mag, ast.BinOp)  # magnitude scaled by a length: a relative test written by hand
        inner = mag.left if isinstance(mag, ast.BinOp) else mag
        arg = inner.args[0] if isinstance(inner, ast.Call) and inner.args else None
        lhs = rhs = None
        if isinstance(arg, ast.BinOp) and isinstance(arg.op, ast.Sub):
            lhs, rhs = arg.left, arg.right
        return Close(test, lhs, rhs, val, -1.0 if relative else 0.0, strict, negated, "norm/abs of a difference against a tolerance", ast.unparse(tol), mag, squared, tol)
    return None


def tests_in(repo: Repo, mod: Module, fn_node: ast.AST) -> List[Close]:
    """All closeness tests used as conditions (if / while / assert / return / boolean operands / comprehension filters)."""
    out: List[Close] = []
    seen = set()

    def consider(e: ast.expr):
        if isinstance(e, ast.BoolOp):
            for v in e.values:
                consider(v)
            return
        if id(e) in seen:
            return
        seen.add(id(e))
        c = parse(repo, mod, e)
        if c is not None:
            out.append(c)

    for n in ast.walk(fn_node):
        if isinstance(n, (ast.If, ast.While, ast.IfExp)):
            consider(n.test)
        elif isinstance(n, ast.Assert):
            consider(n.test)
        elif isinstance(n, ast.Return) and n.value is not None:
            consider(n.value)
        elif isinstance(n, ast.comprehension):
            for cond in n.ifs:
                consider(cond)
        elif isinstance(n, ast.Assign) and isinstance(n.value, (ast.Compare, ast.Call, ast.UnaryOp, ast.BoolOp)):
            consider(n.value)
    return out


# exceptions confirmed by reading: tests that are relative on purpose (one line of reason each)
RELATIVE_ON_PURPOSE = {
    "grading.grading.Grading.description": "sum of length ratios against 1: a dimensionless quantity of order 1, rel_tol = TOL",
    "grading.grading.Grading.__eq__": "grading entries (ratios, counts) of arbitrary magnitude are compared relatively, rel_tol = TOL",
    "grading.relations.get_c2c_expansion__count__start_size": "|count*size - length| / length: uniformity of a length, scaled by the length itself",
    "grading.relations.get_c2c_expansion__count__end_size": "|count*size - length| / length: uniformity of a length, scaled by the length itself",
}


def library_tol(repo: Repo) -> float:
    mod = repo.module("util.constants")
    v = fold(repo, mod, ast.Name(id="TOL", ctx=ast.Load()))
    if v is None:
        raise AnalysisError("util.constants.TOL is not a numeric literal any more")
    return v


def check_functions(r, repo: Repo, qualnames, min_tests=1, scan_modules=(), allow_other_atol=()):
    """Shared rule body. For each function in `qualnames`: at least `min_tests` closeness tests, each purely absolute
    (rtol == 0) and - when the threshold folds to a number - equal to util.constants.TOL. Every other function of
    `scan_modules` may contain closeness tests, but none with a relative part (RELATIVE_ON_PURPOSE excepted)."""
    tol = library_tol(repo)
    listed = set()
    for q in qualnames:
        fn = repo.func(q)
        listed.add(fn.qualname)
        tests = tests_in(repo, fn.module, fn.node)
        r.require(len(tests) >= min_tests, f"{fn.qualname}: no closeness test recognised (idioms: norm(a-b) < T, abs(x) > T, isclose/allclose)")
        for i, c in enumerate(tests):
            _judge(r, fn, c, tol, i, fn.qualname in allow_other_atol, repo, True)
    for m in scan_modules:
        mod = repo.module(m)
        for fn in repo.all_functions():
            if fn.module is not mod or fn.qualname in listed:
                continue
            for i, c in enumerate(tests_in(repo, fn.module, fn.node)):
                _judge(r, fn, c, tol, i, True)


def _judge(r, fn, c: Close, tol: float, i: int, any_atol: bool, repo: Optional[Repo] = None, need_nonneg: bool = False):
    key = f"close#{i}"
    if c.squared and c.tol_node is not None:
        bad_def = _unsquared_definition(fn, c.tol_node)
        if bad_def is not None:
            r.bad(
                fn,
                f"'{ast.unparse(c.node)[:90]}' compares a SQUARED distance with '{ast.unparse(bad_def)[:50]}', which is a plain (unsquared) tolerance: the effective radius is its square root "
                "(sqrt(1e-7) = 3e-4 instead of 1e-7) - vertices far apart by the library's own standard are treated as coincident",
                c.node,
                key=key,
            )
            return
        r.ok(fn, f"squared distance against a squared tolerance ({ast.unparse(c.tol_node)[:40]})", key=key)
        return
    if need_nonneg and c.magnitude is not None and repo is not None:
        from .rules.c20 import SignEnv

        core = c.magnitude
        while isinstance(core, ast.BinOp) and isinstance(core.op, ast.Div):
            core = core.left  # |x| / length: a length scale in the denominator does not make the test one-sided
        if not SignEnv(repo, fn).nonneg(core):
            r.bad(
                fn,
                f"'{ast.unparse(c.node)[:90]}' compares the SIGNED quantity '{ast.unparse(c.magnitude)[:50]}' with the tolerance (no norm / abs): differences of the other sign, however large, "
                "pass as 'coincident'",
                c.node,
                key=key,
            )
            return
    if c.rtol != 0 and fn.qualname in RELATIVE_ON_PURPOSE:
        r.ok(fn, f"relative on purpose: {RELATIVE_ON_PURPOSE[fn.qualname]}", key=key)
        return
    if c.rtol != 0:
        band = f"{c.atol_expr or c.atol} + {c.rtol} * |operand|" if c.rtol > 0 else "a tolerance scaled by a run-time quantity"
        r.bad(
            fn,
            f"'{ast.unparse(c.node)[:90]}' accepts differences up to {band}: the acceptance band grows with the magnitude of the operands, "
            "so values that differ by far more than the library's absolute tolerance are treated as equal away from the origin "
            "(numpy's isclose/allclose add rtol=1e-5 unless rtol=0 is passed)",
            c.node,
            key=key,
        )
        return
    if c.atol is not None and not any_atol and abs(c.atol - tol) > 1e-12 * max(1.0, tol):
        r.bad(fn, f"'{ast.unparse(c.node)[:90]}' uses the threshold {c.atol_expr} = {c.atol}, not the library tolerance TOL = {tol} its siblings use", c.node, key=key)
        return
    r.ok(fn, f"absolute test, threshold {c.atol_expr or c.atol}", key=key)


def _is_squared_expr(e: ast.expr) -> bool:
    if isinstance(e, ast.BinOp) and isinstance(e.op, ast.Pow) and isinstance(e.right, ast.Constant) and e.right.value == 2:
        return True
    if isinstance(e, ast.BinOp) and isinstance(e.op, ast.Mult) and ast.dump(e.left) == ast.dump(e.right):
        return True
    return False


def _unsquared_definition(fn, tol: ast.expr) -> Optional[ast.expr]:
    """The first definition of the threshold that is not a square (None if every reaching definition is one)."""
    if _is_squared_expr(tol):
        return None
    if isinstance(tol, ast.Name):
        defs = [n.value for n in ast.walk(fn.node) if isinstance(n, ast.Assign) and any(isinstance(t, ast.Name) and t.id == tol.id for t in n.targets)]
        if not defs:
            return tol
        for d in defs:
            if not _is_squared_expr(d):
                return d
        return None
    return tol


def no_rounding_rule(repo: Repo, prop: str, rule_id: str, module_prefixes, floor: int = 2):
    """Coordinates, sizes and ratios are carried in full floating-point precision up to the formatted output. Rounding to a fixed
    number of DECIMALS (round(x, n), np.round, np.around) on the way is an absolute quantisation: harmless for values of order
    one, destructive for small ones (an expansion ratio of 6e-8 rounded to 9 decimals has one significant digit; a vertex at
    1/3 rounded to 8 decimals is no longer where its neighbours' copies of it are)."""
    from .report import RuleRun

    r = RuleRun(prop, rule_id, floor=floor, what="no value is rounded to a fixed number of decimals (round(x, n) / np.round / np.around) before it is stored or compared: precision is reduced only when the dictionary is formatted")
    for mod in sorted(repo.modules.values(), key=lambda m: m.name):
        short = mod.name[len("classy_blocks.") :] if mod.name.startswith("classy_blocks.") else mod.name
        if not any(short.startswith(p) for p in module_prefixes):
            continue
        bad = []
        for c in ast.walk(mod.tree):
            if isinstance(c, ast.Call):
                nm = attr_chain(c.func) or ""
                last = nm.split(".")[-1]
                if (nm == "round" and (len(c.args) >= 2 or any(k.arg == "ndigits" for k in c.keywords))) or (last in ("round", "around", "round_") and nm.split(".")[0] in ("np", "numpy")):
                    bad.append(c)
        fns = [f for f in repo.all_functions() if f.module is mod]
        anchor = fns[0] if fns else None
        if anchor is None:
            continue
        if bad:
            for i, c in enumerate(bad):
                owner = next((f for f in fns if any(x is c for x in ast.walk(f.node))), anchor)
                r.bad(owner, f"{owner.qualname}: '{ast.unparse(c)[:70]}' rounds to a fixed number of decimals: an absolute quantisation of a value whose magnitude is not bounded below (ratios down to 1e-8, coordinates in any unit) - "
                      "small values lose all their digits, and positions that were equal are equal no more once only one of them went through the rounding", c, key=f"round#{i}")
        else:
            r.ok(anchor, f"module {short}: no rounding to decimals", key=f"module:{short}")
    return r


# ---------------------------------------------------------------------------------------------------------------------
def exact_coordinate_equality_rule(repo, prop: str, rule_id: str, module_prefixes=("",)):
    """Points that coincide are recognised by distance (Point.__eq__, norm(a - b) < TOL) everywhere in the library: coordinates of
    the 'same' point reached through two chains of transformations differ in the last bits. A bit-for-bit comparison of coordinate
    arrays (np.array_equal / array_equiv, np.all(a == b), (a == b).all(), position == position) therefore fails exactly at the
    seams - between chained shapes, after a rotation - where sharing matters. The expected number of such comparisons is zero;
    the matcher is exercised on an embedded positive example on every run."""
    import ast as _ast

    from .model import attr_chain
    from .report import RuleRun

    r = RuleRun(prop, rule_id, floor=1, what="no bit-for-bit comparison of coordinate arrays (array_equal, all(a == b), position == position): coincident points are recognised by distance")

    def coordinate_like(e) -> bool:
        txt = _ast.unparse(e)
        return any(k in txt for k in ("position", "point", "coord", "vertex", "center", "origin"))

    def hits(tree):
        out = []
        for n in _ast.walk(tree):
            if isinstance(n, _ast.Call):
                nm = (attr_chain(n.func) or "").split(".")[-1]
                if nm in ("array_equal", "array_equiv") and len(n.args) >= 2 and any(coordinate_like(a) for a in n.args[:2]):
                    out.append(n)
                elif nm == "all" and ((n.args and isinstance(n.args[0], _ast.Compare)) or (isinstance(n.func, _ast.Attribute) and isinstance(n.func.value, _ast.Compare))):
                    cmp_ = n.args[0] if n.args and isinstance(n.args[0], _ast.Compare) else n.func.value
                    if isinstance(cmp_.ops[0], (_ast.Eq, _ast.NotEq)) and (coordinate_like(cmp_.left) or coordinate_like(cmp_.comparators[0])):
                        out.append(n)
            elif isinstance(n, _ast.Compare) and len(n.ops) == 1 and isinstance(n.ops[0], (_ast.Eq, _ast.NotEq)):
                sides = [n.left, n.comparators[0]]
                if all(isinstance(s_, _ast.Attribute) and s_.attr in ("position", "positions") for s_ in sides):
                    out.append(n)
        return out

    probe = _ast.parse("def f(a, b):\n    return np.array_equal(a.point.position, b.position) or (a.position == b.position).all() or np.all(a.position == b.position)")
    if len(hits(probe)) < 3:
        from .model import AnalysisError

        raise AnalysisError(f"{rule_id}: the matcher no longer recognises its own positive example")
    n_fn = 0
    for fn in sorted(repo.all_functions(), key=lambda f_: f_.qualname):
        short = fn.module.name[len("classy_blocks.") :] if fn.module.name.startswith("classy_blocks.") else fn.module.name
        if not any(short.startswith(p) for p in module_prefixes):
            continue
        n_fn += 1
        for k, node in enumerate(hits(fn.node)):
            r.bad(
                fn,
                f"{fn.qualname}: '{_ast.unparse(node)[:80]}' compares coordinates bit for bit: two points that coincide up to rounding (the seam between two chained shapes, a rotated copy) are taken for "
                "different points - they are not shared, the blocks built on them do not share vertices across the seam",
                node,
                key=f"exact#{k}",
            )
    r.ok(None, f"{n_fn} functions scanned; matcher verified on its embedded positive example", key="scan")
    return r

"""Dead parameters: a parameter that is overwritten before it is ever read (or never read at all) means the caller's value
is ignored - for a clamp the anchor point of its plane, for a link its origin."""

from __future__ import annotations

import ast
from typing import Tuple

from .model import Repo
from .report import RuleRun


def _first_use(fn_node: ast.FunctionDef, name: str):
    """('load' | 'store' | None, node) of the first use in evaluation order (RHS before LHS for assignments)."""

    def order(node):
        if isinstance(node, (ast.Assign, ast.AnnAssign, ast.AugAssign)):
            val = node.value
            tg = node.targets if isinstance(node, ast.Assign) else [node.target]
            if val is not None:
                yield from order(val)
            if isinstance(node, ast.AugAssign):
                for t in tg:
                    if isinstance(t, ast.Name):
                        yield ("load", t)
            for t in tg:
                yield from order(t)
            return
        if isinstance(node, ast.Name):
            yield ("store" if isinstance(node.ctx, (ast.Store, ast.Del)) else "load", node)
            return
        if isinstance(node, (ast.FunctionDef, ast.Lambda)) and node is not fn_node:
            # a closure reads the variable when it is called: count as a load (of whatever is bound then)
            for n in ast.walk(node):
                if isinstance(n, ast.Name) and isinstance(n.ctx, ast.Load):
                    yield ("closure", n)
            return
        for child in ast.iter_child_nodes(node):
            yield from order(child)

    for st in fn_node.body:
        for kind, n in order(st):
            if n.id == name:
                return kind, n
    return None, None


def dead_params_rule(repo: Repo, prop: str, rule_id: str, module_prefixes: Tuple[str, ...], floor: int = 5) -> RuleRun:
    r = RuleRun(prop, rule_id, floor=floor, what="every parameter is read before it is overwritten (no caller-supplied value is silently ignored)")
    for fn in sorted(repo.all_functions(), key=lambda f: f.qualname):
        short = fn.module.name[len("classy_blocks.") :] if fn.module.name.startswith("classy_blocks.") else fn.module.name
        if not any(short.startswith(p) for p in module_prefixes):
            continue
        if any(isinstance(d, ast.Attribute) and d.attr == "abstractmethod" or isinstance(d, ast.Name) and d.id == "abstractmethod" for d in fn.node.decorator_list):
            continue
        body = [st for st in fn.node.body if not (isinstance(st, ast.Expr) and isinstance(st.value, ast.Constant))]
        if not body or all(isinstance(st, (ast.Pass, ast.Raise)) for st in body):
            continue
        args = fn.node.args
        names = [a.arg for a in [*args.posonlyargs, *args.args, *args.kwonlyargs]]
        if fn.cls is not None and names and not fn.is_staticmethod:
            names = names[1:]
        for p in names:
            if p.startswith("_"):
                continue
            kind, node = _first_use(fn.node, p)
            if kind == "store":
                r.bad(
                    fn,
                    f"{fn.qualname} overwrites its parameter '{p}' before reading it ('{ast.unparse(_stmt_of(fn.node, node))[:70]}'): the value the caller passed is ignored",
                    node,
                    key=f"param:{p}",
                )
            elif kind is None:
                # never mentioned: interface parameters of overrides are common and harmless; not judged
                continue
            else:
                r.ok(fn, f"'{p}' is read", key=f"param:{p}")
    return r


def _stmt_of(fn_node, node):
    for st in ast.walk(fn_node):
        if isinstance(st, ast.stmt) and any(x is node for x in ast.walk(st)) and not isinstance(st, (ast.FunctionDef, ast.If, ast.For, ast.While, ast.With, ast.Try)):
            return st
    return node


# ---------------------------------------------------------------------------------------------------------------------
# scalar-or-vector parameters: `amount: Union[float, VectorType]` is told apart by a type test. `isinstance(x, float) or
# isinstance(x, int)` is False for numpy's own scalars other than float64 (np.int64 from an integer array, np.float32), which
# then fall into the vector branch where a 0-d array is broadcast to (a, a, a): the extrusion runs along the space diagonal
# instead of the normal. A test by shape (np.ndim / np.isscalar) or against the numeric tower (numbers.Real, np.number) is complete.
SCALAR_COMPLETE = ("isscalar", "ndim", "Real", "Number", "number", "integer", "floating", "generic")


def scalar_dispatch_rule(repo: Repo, prop: str, rule_id: str, module_prefixes: Tuple[str, ...] = ("construct.",), floor: int = 3) -> RuleRun:
    from .model import attr_chain

    r = RuleRun(prop, rule_id, floor=floor, what="a parameter that may be a number or a vector is told apart by a test every scalar passes (np.ndim / np.isscalar / numbers.Real / np.number) - not by isinstance(x, float) or isinstance(x, int), which numpy's int64 / float32 scalars fail")
    n = 0
    for fn in sorted(repo.all_functions(), key=lambda f_: f_.qualname):
        short = fn.module.name[len("classy_blocks.") :] if fn.module.name.startswith("classy_blocks.") else fn.module.name
        if not any(short.startswith(p) for p in module_prefixes):
            continue
        both = set()
        for a in fn.node.args.args:
            ann = ast.unparse(a.annotation) if a.annotation is not None else ""
            if "Union" in ann and "float" in ann and any(t in ann for t in ("VectorType", "PointType")):
                both.add(a.arg)
        if not both:
            continue
        for st in ast.walk(fn.node):
            if not isinstance(st, ast.If):
                continue
            calls = [c for c in ast.walk(st.test) if isinstance(c, ast.Call) and c.args and isinstance(c.args[0], ast.Name) and c.args[0].id in both]
            tests = [c for c in calls if (attr_chain(c.func) or "").split(".")[-1] in ("isinstance", "isscalar", "ndim", "shape", "size")]
            if not tests:
                continue
            name = tests[0].args[0].id
            n += 1
            txt = ast.unparse(st.test)
            complete = any(k in txt for k in SCALAR_COMPLETE)
            r.check(
                complete,
                fn,
                f"'{txt[:60]}' accepts every scalar",
                f"{fn.qualname}: '{txt[:80]}' decides whether '{name}' is a number or a vector by its Python type: numpy's own scalars other than float64 (np.int64 taken from an integer array, np.float32) "
                f"fail it and are treated as a vector - np.asarray of a 0-d value is broadcast to (a, a, a), so the entity is built along the space diagonal instead of the normal "
                "(ExtrudedStack(grid, np.int64(3), 3): tier centres [1,1,0.5], [2,2,1.5], [3,3,2.5] instead of [.5,.5,.5], [.5,.5,1.5], [.5,.5,2.5])",
                st.test,
                key=f"dispatch:{name}",
            )
    r.require(n >= floor, f"only {n} scalar-or-vector type tests found")
    return r

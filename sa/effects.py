"""E3 - alias / in-place effect summaries: "function f may mutate the object passed as parameter i"
(or reachable through ``self.<attr>``), computed as an interprocedural fixpoint.

Alias model (may-alias of array-like values):
  alias   : x = p | np.asarray(p[, ...]) | np.asanyarray(p) | p[...] (view) | p.T | p.reshape(...) | p.view() | p.ravel()
  fresh   : np.array(p) | p.copy() | np.copy(p) | copy.copy/deepcopy(p) | arithmetic | any other call result | literals
In-place effects on an alias: augmented assignment, subscript store, mutating methods, ``out=`` keyword,
passing it to a callee at a position that callee may mutate.
"""

from __future__ import annotations

import ast
from typing import Dict, FrozenSet, List, Optional, Set, Tuple

from .model import FuncInfo, Repo, TypeEnv, attr_chain, walk_shallow

ALIAS_CALLS = {"np.asarray", "numpy.asarray", "np.asanyarray", "numpy.asanyarray", "np.atleast_1d", "np.ascontiguousarray"}
VIEW_ATTRS = {"T", "real", "flat"}
VIEW_METHODS = {"reshape", "view", "ravel", "squeeze", "transpose", "swapaxes"}
MUTATING_METHODS = {"sort", "reverse", "append", "extend", "insert", "pop", "remove", "clear", "fill", "resize", "put", "itemset", "setfield", "partition", "update", "add", "discard"}


class Effects:
    def __init__(self, repo: Repo):
        self.repo = repo
        # qualname -> set of roots mutated: parameter names and 'self.<attr>' chains
        self.mutates: Dict[str, Set[str]] = {}
        self.witness: Dict[Tuple[str, str], ast.AST] = {}
        self._compute()

    # -- alias roots of an expression ---------------------------------------------------------
    def roots(self, expr: ast.expr, alias: Dict[str, Set[str]]) -> Set[str]:
        if isinstance(expr, ast.Name):
            return set(alias.get(expr.id, set()))
        if isinstance(expr, ast.Attribute):
            ch = attr_chain(expr)
            if ch is not None and ch.startswith("self.") and ch.count(".") == 1:
                return {ch}
            if expr.attr in VIEW_ATTRS:
                return self.roots(expr.value, alias)
            # attribute of an aliased object: treat obj.attr as part of obj (mutating it mutates obj)
            return self.roots(expr.value, alias)
        if isinstance(expr, ast.Subscript):
            return self.roots(expr.value, alias)
        if isinstance(expr, ast.Call):
            nm = attr_chain(expr.func) or ""
            if nm in ALIAS_CALLS and expr.args:
                return self.roots(expr.args[0], alias)
            if isinstance(expr.func, ast.Attribute) and expr.func.attr in VIEW_METHODS:
                return self.roots(expr.func.value, alias)
            return set()
        if isinstance(expr, ast.IfExp):
            return self.roots(expr.body, alias) | self.roots(expr.orelse, alias)
        if isinstance(expr, ast.Starred):
            return self.roots(expr.value, alias)
        return set()

    def _local_pass(self, fn: FuncInfo) -> Tuple[Set[str], Dict[Tuple[str, str], ast.AST], List[Tuple[ast.Call, List[Set[str]], Dict[str, Set[str]]]]]:
        params = fn.params
        alias: Dict[str, Set[str]] = {p: {p} for p in params}
        if fn.cls is not None and not fn.is_staticmethod and params:
            alias[params[0]] = set()  # self itself is not tracked; self.<attr> chains are
        mutated: Set[str] = set()
        wit: Dict[Tuple[str, str], ast.AST] = {}
        calls: List[Tuple[ast.Call, List[Set[str]], Dict[str, Set[str]]]] = []

        def mark(rs: Set[str], node: ast.AST):
            for r_ in rs:
                mutated.add(r_)
                wit.setdefault((fn.qualname, r_), node)

        # statements are processed in source order; a plain re-binding at the top level of the function
        # is a strong update (``point = np.array(point)`` ends the alias), inside branches and loops
        # updates are weak (may-alias union). Loop bodies are processed twice.
        def bind(name: str, rs: Set[str], strong: bool):
            if strong:
                alias[name] = set(rs)
            else:
                alias.setdefault(name, set())
                alias[name] |= rs

        def effects_of(n: ast.AST):
            if isinstance(n, ast.AugAssign):
                t = n.target
                if isinstance(t, ast.Name):
                    mark(alias.get(t.id, set()), n)
                else:
                    mark(self.roots(t, alias), n)
            elif isinstance(n, ast.Assign):
                for t in n.targets:
                    if isinstance(t, ast.Subscript):
                        mark(self.roots(t.value, alias), n)
                    elif isinstance(t, ast.Attribute) and not (isinstance(t.value, ast.Name) and t.value.id == (params[0] if params else None) and fn.cls is not None):
                        mark(self.roots(t.value, alias), n)

        def calls_in(node: ast.AST):
            for c in [node, *walk_shallow(node)]:
                if isinstance(c, ast.Call):
                    if isinstance(c.func, ast.Attribute) and c.func.attr in MUTATING_METHODS:
                        mark(self.roots(c.func.value, alias), c)
                    for kw in c.keywords:
                        if kw.arg == "out":
                            mark(self.roots(kw.value, alias), c)
                    argroots = [self.roots(a, alias) for a in c.args]
                    kwroots = {kw.arg: self.roots(kw.value, alias) for kw in c.keywords if kw.arg}
                    recv = self.roots(c.func.value, alias) if isinstance(c.func, ast.Attribute) else set()
                    if not any(c is x[0] for x in calls):
                        calls.append((c, argroots, {"__recv__": recv, **kwroots}))
                elif isinstance(c, (ast.ListComp, ast.GeneratorExp, ast.SetComp, ast.DictComp)):
                    for g_ in c.generators:
                        rs = self.roots(g_.iter, alias)
                        if isinstance(g_.target, ast.Name) and rs:
                            bind(g_.target.id, rs, False)

        def block(stmts, strong: bool):
            for st in stmts:
                if isinstance(st, (ast.FunctionDef, ast.AsyncFunctionDef, ast.ClassDef)):
                    continue
                if isinstance(st, ast.Assign):
                    calls_in(st.value)
                    rs = self.roots(st.value, alias)
                    effects_of(st)
                    for t in st.targets:
                        if isinstance(t, ast.Name):
                            bind(t.id, rs, strong)
                        elif isinstance(t, (ast.Tuple, ast.List)) and isinstance(st.value, (ast.Tuple, ast.List)):
                            for a, b in zip(t.elts, st.value.elts):
                                if isinstance(a, ast.Name):
                                    bind(a.id, self.roots(b, alias), strong)
                elif isinstance(st, ast.AnnAssign):
                    if st.value is not None:
                        calls_in(st.value)
                        if isinstance(st.target, ast.Name):
                            bind(st.target.id, self.roots(st.value, alias), strong)
                elif isinstance(st, ast.AugAssign):
                    calls_in(st.value)
                    effects_of(st)
                elif isinstance(st, (ast.For, ast.AsyncFor)):
                    calls_in(st.iter)
                    rs = self.roots(st.iter, alias)
                    it = st.iter
                    tgt = st.target
                    if isinstance(it, ast.Call) and attr_chain(it.func) == "enumerate" and it.args:
                        rs = self.roots(it.args[0], alias)
                        tgt = st.target.elts[1] if isinstance(st.target, ast.Tuple) and len(st.target.elts) == 2 else None
                    if isinstance(tgt, ast.Name) and rs:
                        bind(tgt.id, rs, False)
                    for _ in range(2):
                        block(st.body, False)
                    block(st.orelse, False)
                elif isinstance(st, ast.While):
                    calls_in(st.test)
                    for _ in range(2):
                        block(st.body, False)
                    block(st.orelse, False)
                elif isinstance(st, ast.If):
                    calls_in(st.test)
                    block(st.body, False)
                    block(st.orelse, False)
                elif isinstance(st, (ast.With, ast.AsyncWith)):
                    for i_ in st.items:
                        calls_in(i_.context_expr)
                    block(st.body, strong)
                elif isinstance(st, ast.Try):
                    block(st.body, False)
                    for h in st.handlers:
                        block(h.body, False)
                    block(st.orelse, False)
                    block(st.finalbody, False)
                else:
                    calls_in(st)

        block(fn.node.body, True)
        return mutated, wit, calls

    def _compute(self) -> None:
        repo = self.repo
        local: Dict[str, Tuple] = {}
        envs: Dict[str, TypeEnv] = {}
        for fn in repo.all_functions():
            mutated, wit, calls = self._local_pass(fn)
            self.mutates[fn.qualname] = set(mutated)
            self.witness.update(wit)
            local[fn.qualname] = (fn, calls)
        changed = True
        rounds = 0
        while changed and rounds < 20:
            changed = False
            rounds += 1
            for q, (fn, calls) in local.items():
                for call, argroots, extra in calls:
                    self_call = (
                        isinstance(call.func, ast.Attribute)
                        and (
                            (isinstance(call.func.value, ast.Name) and fn.cls is not None and bool(fn.params) and call.func.value.id == fn.params[0])
                            or (isinstance(call.func.value, ast.Call) and attr_chain(call.func.value.func) == "super")
                        )
                    )
                    if not any(argroots) and not any(extra.values()) and not self_call:
                        continue
                    if q not in envs:
                        envs[q] = TypeEnv(repo, fn)
                    callees, _ext = envs[q].resolve_call(call)
                    for c in callees:
                        cm = self.mutates.get(c.qualname, set())
                        if not cm:
                            continue
                        cparams = c.params
                        offset = 1 if (c.cls is not None and not c.is_staticmethod and (isinstance(call.func, ast.Attribute) or c.name == "__init__")) else 0
                        for i, rs in enumerate(argroots):
                            j = i + offset
                            if j < len(cparams) and cparams[j] in cm and rs:
                                new = rs - self.mutates[q]
                                if new:
                                    self.mutates[q] |= new
                                    for r_ in new:
                                        self.witness.setdefault((q, r_), call)
                                    changed = True
                        for k, rs in extra.items():
                            if k != "__recv__" and k in cm and rs:
                                new = rs - self.mutates[q]
                                if new:
                                    self.mutates[q] |= new
                                    for r_ in new:
                                        self.witness.setdefault((q, r_), call)
                                    changed = True
                        # self.method(): the callee's self.<attr> effects are the caller's
                        if (
                            isinstance(call.func, ast.Attribute)
                            and isinstance(call.func.value, ast.Name)
                            and fn.cls is not None
                            and fn.params
                            and call.func.value.id == fn.params[0]
                        ) or (isinstance(call.func, ast.Attribute) and isinstance(call.func.value, ast.Call) and attr_chain(call.func.value.func) == "super"):
                            new = {m for m in cm if m.startswith("self.")} - self.mutates[q]
                            if new:
                                self.mutates[q] |= new
                                for r_ in new:
                                    self.witness.setdefault((q, r_), call)
                                changed = True
                        # a callee that mutates its own self.<attr> mutates the receiver object
                        if extra.get("__recv__") and any(m.startswith("self.") for m in cm):
                            new = extra["__recv__"] - self.mutates[q]
                            if new and c.name not in ("__init__",):
                                self.mutates[q] |= new
                                for r_ in new:
                                    self.witness.setdefault((q, r_), call)
                                changed = True

    def stored_aliases(self, fn: FuncInfo) -> Dict[str, Set[str]]:
        """For a method (typically __init__): self.<attr> -> parameters whose object the attribute may
        alias after the call (``self.points = np.asarray(points)``); fresh copies give no entry."""
        params = fn.params
        if fn.cls is None or not params:
            return {}
        selfname = params[0]
        alias: Dict[str, Set[str]] = {p: {p} for p in params[1:]}
        out: Dict[str, Set[str]] = {}

        def block(stmts, strong):
            for st in stmts:
                if isinstance(st, (ast.Assign, ast.AnnAssign)):
                    val = st.value
                    if val is None:
                        continue
                    rs = self.roots(val, alias)
                    tgts = st.targets if isinstance(st, ast.Assign) else [st.target]
                    for t in tgts:
                        if isinstance(t, ast.Name):
                            if strong:
                                alias[t.id] = set(rs)
                            else:
                                alias.setdefault(t.id, set())
                                alias[t.id] |= rs
                        elif isinstance(t, ast.Attribute) and isinstance(t.value, ast.Name) and t.value.id == selfname:
                            keep = {r_ for r_ in rs if r_ in params}
                            if keep:
                                out.setdefault(f"self.{t.attr}", set()).update(keep)
                            elif strong:
                                out.pop(f"self.{t.attr}", None)
                elif isinstance(st, (ast.If, ast.For, ast.While, ast.With, ast.Try)):
                    for fld in ("body", "orelse", "finalbody"):
                        block(getattr(st, fld, []) or [], False)
                    for h in getattr(st, "handlers", []) or []:
                        block(h.body, False)

        block(fn.node.body, True)
        return out

    # -- queries ------------------------------------------------------------------------------
    def mutated_params(self, fn: FuncInfo) -> Set[str]:
        ms = self.mutates.get(fn.qualname, set())
        params = fn.params
        skip = {params[0]} if (fn.cls is not None and not fn.is_staticmethod and params) else set()
        return {m for m in ms if m in params and m not in skip}

    def mutated_self_attrs(self, fn: FuncInfo) -> Set[str]:
        return {m for m in self.mutates.get(fn.qualname, set()) if m.startswith("self.")}

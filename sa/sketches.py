"""Static facts about the sketch classes: literal quad maps, chop lists, grid tiers, merge structure."""

from __future__ import annotations

import ast
from typing import Any, Dict, List, Optional, Tuple

from .model import AnalysisError, ClassInfo, FuncInfo, Repo, attr_chain, walk_shallow
from .peval import NO_MATCH, Evaluator, NotEvaluable, Obj, Raised, Sym


def literal_quad_map(repo: Repo, cls: ClassInfo) -> Optional[List[List[int]]]:
    """quad_map literal assigned in the class' own __init__, if any."""
    init = cls.methods.get("__init__")
    if init is None:
        return None
    arg = mapped_ctor_args(init)
    if arg is None or len(arg) < 2:
        return None
    qexpr = arg[1]
    if isinstance(qexpr, ast.Name):
        defs = [n for n in walk_shallow(init.node) if isinstance(n, ast.Assign) and isinstance(n.targets[0], ast.Name) and n.targets[0].id == qexpr.id]
        if len(defs) != 1:
            return None
        qexpr = defs[0].value
    if not isinstance(qexpr, ast.List):
        return None
    try:
        qm = ast.literal_eval(qexpr)
    except Exception as err:  # noqa: BLE001
        raise AnalysisError(f"{cls.qualname}: quad map handed to MappedSketch is not a literal") from err
    if not all(isinstance(q, list) and all(isinstance(i, int) for i in q) for q in qm):
        raise AnalysisError(f"{cls.qualname}: quad map is not a list of integer lists")
    return qm


def mapped_ctor_args(init: FuncInfo):
    """Arguments of the call that reaches MappedSketch.__init__(positions, quads): the super().__init__(...) /
    super(X, self).__init__(...) call with two positional arguments."""
    for n in walk_shallow(init.node):
        if isinstance(n, ast.Call) and isinstance(n.func, ast.Attribute) and n.func.attr == "__init__" and isinstance(n.func.value, ast.Call) and attr_chain(n.func.value.func) == "super" and len(n.args) == 2 and not n.keywords:
            return n.args
    return None


def positions_literal_len(init: FuncInfo) -> Optional[int]:
    arg = mapped_ctor_args(init)
    if arg is None:
        return None
    pexpr = arg[0]
    if isinstance(pexpr, ast.Name):
        defs = [n for n in walk_shallow(init.node) if isinstance(n, ast.Assign) and isinstance(n.targets[0], ast.Name) and n.targets[0].id == pexpr.id]
        if len(defs) != 1:
            return None
        pexpr = defs[0].value
    if isinstance(pexpr, ast.List) and not any(isinstance(e, ast.Starred) for e in pexpr.elts):
        return len(pexpr.elts)
    return None


def sketch_classes_with_quad_map(repo: Repo) -> List[ClassInfo]:
    base = repo.cls("construct.flat.sketches.mapped.MappedSketch")
    out = []
    for c in sorted(repo.subclasses(base), key=lambda c: c.qualname):
        if literal_quad_map(repo, c) is not None:
            out.append(c)
    return out


def chops_of(repo: Repo, cls: ClassInfo) -> List[List[int]]:
    v = repo.class_var(cls, "chops")
    if v is None:
        raise AnalysisError(f"{cls.qualname}: no chops class variable")
    try:
        chops = ast.literal_eval(v[0])
    except Exception as err:  # noqa: BLE001
        raise AnalysisError(f"{cls.qualname}.chops is not a literal") from err
    if not (isinstance(chops, list) and all(isinstance(c, list) and all(isinstance(i, int) for i in c) for c in chops)):
        raise AnalysisError(f"{cls.qualname}.chops is not a list of integer lists")
    return chops


def eval_grid(repo: Repo, cls: ClassInfo, faces: List[Any]) -> List[List[Any]]:
    """Evaluates the `grid` property of a sketch class on a symbolic face list."""
    grid = repo.find_method(cls, "grid")
    if grid is None or not grid.is_property:
        raise AnalysisError(f"{cls.qualname}: grid property vanished")
    this = Obj("sketch", cls=cls)
    this.set("_faces", list(faces))
    try:
        res = Evaluator(repo=repo, module=grid.module).call_funcinfo(grid, [this])
    except (NotEvaluable, Raised) as err:
        raise AnalysisError(f"{cls.qualname}.grid not evaluable on {len(faces)} symbolic faces: {err}") from err
    if not (isinstance(res, list) and all(isinstance(t, list) for t in res)):
        raise AnalysisError(f"{cls.qualname}.grid does not evaluate to a list of lists: {res}")
    return res


# --------------------------------------------------------------------------------------------
# merge structure of the spline-round sketches


def merge_appends_in_order(repo: Repo) -> bool:
    """MappedSketch.merge keeps self's faces first and appends the other sketch's faces in order."""
    merge = repo.func("construct.flat.sketches.mapped.MappedSketch.merge")
    for n in ast.walk(merge.node):
        if isinstance(n, ast.Assign) and isinstance(n.targets[0], ast.Attribute) and n.targets[0].attr == "_faces":
            v = n.value
            if isinstance(v, ast.List) and len(v.elts) == 2 and all(isinstance(e, ast.Starred) for e in v.elts):
                a, b = (attr_chain(e.value) for e in v.elts)
                base = attr_chain(n.targets[0].value)
                if a in (f"{base}.faces", f"{base}._faces") and b is not None and b.endswith((".faces", "._faces")) and not b.startswith(base + "."):
                    return True
            if isinstance(v, ast.BinOp) and isinstance(v.op, ast.Add):
                return True
    return False


def face_roles(repo: Repo, cls: ClassInfo, _depth: int = 0) -> List[Tuple[str, int, str]]:
    """For sketches built by MappedSketch.merge: the static list of faces as
    (base class name, local face index, role of that face in the base sketch's own grid: core/mid/shell)."""
    if _depth > 6:
        raise AnalysisError("merge structure too deep")
    qm = literal_quad_map(repo, cls)
    init = cls.methods.get("__init__")
    if qm is not None:
        faces = [Sym(f"f{i}") for i in range(len(qm))]
        grid = eval_grid(repo, cls, faces)
        role_of = {}
        for t, tier in enumerate(grid):
            role = "shell" if t == len(grid) - 1 else ("core" if t == 0 else "mid")
            for f in tier:
                role_of[repr(f)] = role
        return [(cls.name, i, role_of.get(f"f{i}", "none")) for i in range(len(qm))]
    if init is None:
        for b in cls.bases:
            return face_roles(repo, b, _depth + 1)
        raise AnalysisError(f"{cls.qualname}: cannot derive faces")
    # super().__init__(...) then self.merge(<expr>)
    roles: Optional[List] = None
    local: Dict[str, List] = {}
    for st in init.node.body:
        for n in [st, *walk_shallow(st)]:
            if isinstance(n, ast.Call) and isinstance(n.func, ast.Attribute) and n.func.attr == "__init__" and isinstance(n.func.value, ast.Call) and attr_chain(n.func.value.func) == "super":
                parent_cls = repo.mro(cls)[1]
                roles = list(face_roles(repo, parent_cls, _depth + 1))
        if isinstance(st, ast.Assign) and isinstance(st.targets[0], ast.Name) and isinstance(st.value, ast.Call):
            name = st.targets[0].id
            call = st.value
            tgt = repo.resolve_expr(cls.module, call.func) if isinstance(call.func, (ast.Name, ast.Attribute)) else None
            if isinstance(tgt, ClassInfo):
                local[name] = list(face_roles(repo, tgt, _depth + 1))
            else:
                # self.copy().transform(...)  -> same faces as self so far
                inner = call
                while isinstance(inner, ast.Call) and isinstance(inner.func, ast.Attribute) and inner.func.attr in ("transform", "rotate", "translate", "mirror", "scale"):
                    inner = inner.func.value
                if isinstance(inner, ast.Call) and attr_chain(inner.func) == "self.copy" and roles is not None:
                    local[name] = list(roles)
        if isinstance(st, ast.Expr) and isinstance(st.value, ast.Call) and attr_chain(st.value.func) == "self.merge":
            arg = st.value.args[0]
            if not (isinstance(arg, ast.Name) and arg.id in local and roles is not None):
                raise AnalysisError(f"{cls.qualname}.__init__: merge argument not recognised")
            roles = roles + local[arg.id]
    if roles is None:
        raise AnalysisError(f"{cls.qualname}.__init__: no super().__init__ found")
    return roles


def merged_sketch_classes(repo: Repo) -> List[ClassInfo]:
    base = repo.cls("construct.flat.sketches.mapped.MappedSketch")
    out = []
    for c in sorted(repo.subclasses(base), key=lambda c: c.qualname):
        init = c.methods.get("__init__")
        if init is not None and any(isinstance(n, ast.Call) and attr_chain(n.func) == "self.merge" for n in ast.walk(init.node)):
            out.append(c)
    return out

"""'Not given' versus 'zero': a parameter annotated Optional[float] / Optional[int] (default None) may legitimately be 0.
Deciding 'not given' by truthiness (``if not x``, ``x or default``) silently replaces an explicit 0 by the default."""

from __future__ import annotations

import ast
from typing import Tuple

from .model import Repo, parent
from .report import RuleRun

NUMERIC = ("float", "int")


def _numeric_optional(a: ast.arg) -> bool:
    if a.annotation is None:
        return False
    txt = ast.unparse(a.annotation)
    if "Optional[" not in txt and "None" not in txt:
        return False
    inner = txt.replace("Optional[", "").replace("]", "").replace("Union[", "").replace("None", "").replace("|", ",")
    parts = [p.strip() for p in inner.split(",") if p.strip()]
    return bool(parts) and all(p in NUMERIC for p in parts)


def none_tests_rule(repo: Repo, prop: str, rule_id: str, module_prefixes: Tuple[str, ...] = ("",), floor: int = 3) -> RuleRun:
    r = RuleRun(prop, rule_id, floor=floor, what="'not given' for an Optional numeric parameter is decided with 'is None', never by truthiness (0 is a value)")
    for fn in sorted(repo.all_functions(), key=lambda f: f.qualname):
        short = fn.module.name[len("classy_blocks.") :] if fn.module.name.startswith("classy_blocks.") else fn.module.name
        if not any(short.startswith(p) for p in module_prefixes):
            continue
        params = [a.arg for a in [*fn.node.args.args, *fn.node.args.kwonlyargs] if _numeric_optional(a)]
        if not params:
            continue
        rebound = {t.id for n in ast.walk(fn.node) if isinstance(n, ast.Assign) for t in n.targets if isinstance(t, ast.Name)}
        for p in params:
            k = 0
            for n in ast.walk(fn.node):
                if not (isinstance(n, ast.Name) and n.id == p and isinstance(n.ctx, ast.Load)):
                    continue
                par = parent(n)
                truthy = False
                if isinstance(par, (ast.If, ast.While, ast.IfExp)) and par.test is n:
                    truthy = True
                elif isinstance(par, ast.UnaryOp) and isinstance(par.op, ast.Not):
                    truthy = True
                elif isinstance(par, ast.BoolOp) and n in par.values:
                    # `x or default` / `x and ...` - operands of a BoolOp are tested for truth (the last one of an `or` chain is only a value)
                    truthy = not (par.values[-1] is n)
                elif isinstance(par, ast.Compare) and par.left is n and len(par.ops) == 1 and isinstance(par.ops[0], (ast.Is, ast.IsNot)) and isinstance(par.comparators[0], ast.Constant) and par.comparators[0].value is None:
                    k += 1
                    r.ok(fn, f"'{ast.unparse(par)}'", key=f"{p}:is-none#{k}")
                    continue
                if truthy:
                    k += 1
                    # a parameter re-bound to a non-None value before the test is a different matter; judge only tests that can see the caller's value
                    r.bad(
                        fn,
                        f"{fn.qualname} decides whether the numeric parameter '{p}' was given by its truth value ('{ast.unparse(par)[:50]}'): an explicit {p}=0 is treated as 'not given' "
                        "and silently replaced by the default (e.g. a curve discretised from parameter 0 starts at the lower bound instead)",
                        par,
                        key=f"{p}:truthy#{k}",
                    )
    _optional_fields(repo, r, module_prefixes)
    return r


def _truth_tested(n: ast.AST) -> bool:
    """is the expression node n used for its truth value?"""
    par = parent(n)
    if isinstance(par, (ast.If, ast.While, ast.IfExp)) and par.test is n:
        return True
    if isinstance(par, ast.UnaryOp) and isinstance(par.op, ast.Not):
        return True
    if isinstance(par, ast.BoolOp) and n in par.values:
        return par.values[-1] is not n
    if isinstance(par, ast.comprehension) and n in par.ifs:
        return True
    return False


def _optional_fields(repo: Repo, r: RuleRun, module_prefixes) -> None:
    """the same for the Optional numeric FIELDS of a class (a dataclass of chop parameters): `self.start_size` tested for truth, or a
    list of such fields filtered / counted by truth ([p for p in params if p], filter(None, params), any(params))"""
    for cls in sorted(repo.classes.values(), key=lambda c: c.qualname):
        short = cls.module.name[len("classy_blocks.") :] if cls.module.name.startswith("classy_blocks.") else cls.module.name
        if not any(short.startswith(p) for p in module_prefixes):
            continue
        fields = {name for name, ann in cls.class_annotations.items() if _numeric_optional(ast.arg(arg=name, annotation=ann))}
        if not fields:
            continue
        for fn in cls.methods.values():
            me = fn.params[0] if fn.params else "self"
            is_field = lambda e: isinstance(e, ast.Attribute) and isinstance(e.value, ast.Name) and e.value.id == me and e.attr in fields  # noqa: E731
            k = 0
            # lists made of optional fields
            lists = {}
            for st in ast.walk(fn.node):
                if isinstance(st, ast.Assign) and len(st.targets) == 1 and isinstance(st.targets[0], ast.Name) and isinstance(st.value, (ast.List, ast.Tuple)) and st.value.elts and all(is_field(e) for e in st.value.elts):
                    lists[st.targets[0].id] = st
            for n in ast.walk(fn.node):
                if is_field(n) and isinstance(n.ctx, ast.Load) and _truth_tested(n):
                    k += 1
                    r.bad(fn, f"{fn.qualname} decides whether the numeric field '{n.attr}' was given by its truth value ('{ast.unparse(parent(n))[:60]}'): an explicit {n.attr}=0 counts as 'not given' - it is never validated, a default takes its place", parent(n), key=f"{n.attr}:truthy#{k}")
                elif is_field(n) and isinstance(n.ctx, ast.Load):
                    par = parent(n)
                    if isinstance(par, ast.Compare) and par.left is n and isinstance(par.ops[0], (ast.Is, ast.IsNot)):
                        k += 1
                        r.ok(fn, f"'{ast.unparse(par)}'", key=f"{n.attr}:is-none#{k}")
                # element-wise truth over a list of optional fields
                if isinstance(n, (ast.ListComp, ast.GeneratorExp, ast.SetComp)):
                    for g in n.generators:
                        if isinstance(g.iter, ast.Name) and g.iter.id in lists and isinstance(g.target, ast.Name):
                            for cond in g.ifs:
                                for x in ast.walk(cond):
                                    if isinstance(x, ast.Name) and x.id == g.target.id and (x is cond or _truth_tested(x)):
                                        k += 1
                                        r.bad(fn, f"{fn.qualname} counts the given parameters by truth value ('{ast.unparse(n)[:70]}' over {sorted(e.attr for e in lists[g.iter.id].value.elts)}): a parameter of exactly 0 counts as 'not given', a default is filled in for it and the zero is never validated - Chop(count=10, start_size=0) is answered instead of refused", n, key=f"list:truthy#{k}")
                if isinstance(n, ast.Call) and isinstance(n.func, ast.Name) and n.func.id in ("any", "all", "filter") and n.args and isinstance(n.args[-1], ast.Name) and n.args[-1].id in lists and (n.func.id != "filter" or (isinstance(n.args[0], ast.Constant) and n.args[0].value is None) or (isinstance(n.args[0], ast.Name) and n.args[0].id == "bool")):
                    k += 1
                    r.bad(fn, f"{fn.qualname} tests the optional numeric parameters {sorted(e.attr for e in lists[n.args[-1].id].value.elts)} by truth value ('{ast.unparse(n)[:60]}'): a parameter of exactly 0 counts as 'not given'", n, key=f"list:truthy#{k}")
                if isinstance(n, ast.Call) and isinstance(n.func, ast.Attribute) and n.func.attr == "count" and isinstance(n.func.value, ast.Name) and n.func.value.id in lists and n.args and isinstance(n.args[0], ast.Constant) and n.args[0].value is None:
                    k += 1
                    r.ok(fn, f"'{ast.unparse(n)}' counts the parameters that are None", key=f"list:count-none#{k}")


# ---------------------------------------------------------------------------------------------------------------------
def flag_identity_rule(repo, prop: str, rule_id: str, module_prefixes=("",)):
    """A boolean flag is tested by truth: `if end_face:`. `if end_face is True:` (or `== True` / `is False`) is passed by the literal
    only - a flag computed by a comparison of numpy values (numpy.bool_) or given as 1 silently takes the other branch and the
    entity at the OTHER end is addressed. For every parameter annotated `bool`: no identity / equality test against True or False.
    Expected count zero; the matcher is exercised on an embedded example on every run."""
    import ast as _ast

    from .model import AnalysisError
    from .report import RuleRun

    r = RuleRun(prop, rule_id, floor=1, what="no boolean flag parameter is compared with the literals True / False by identity or equality (numpy.bool_ and 1 would take the other branch)")

    def hits(fn_node):
        flags = {a.arg for a in [*fn_node.args.args, *fn_node.args.kwonlyargs] if a.annotation is not None and _ast.unparse(a.annotation) in ("bool", "Optional[bool]")}
        out = []
        for n in _ast.walk(fn_node):
            if isinstance(n, _ast.Compare) and len(n.ops) == 1 and isinstance(n.ops[0], (_ast.Is, _ast.IsNot, _ast.Eq, _ast.NotEq)):
                sides = [n.left, n.comparators[0]]
                if any(isinstance(s_, _ast.Name) and s_.id in flags for s_ in sides) and any(isinstance(s_, _ast.Constant) and isinstance(s_.value, bool) for s_ in sides):
                    out.append(n)
        return out

    probe = _ast.parse("def f(self, end_face: bool, other: bool):\n    if end_face is True:\n        return 2\n    if other:\n        return 3\n    return 1")
    if len(hits(probe.body[0])) != 1:
        raise AnalysisError(f"{rule_id}: the matcher no longer recognises its embedded example")
    n = 0
    for fn in sorted(repo.all_functions(), key=lambda f_: f_.qualname):
        short = fn.module.name.split("classy_blocks.")[-1]
        if not any(short.startswith(p) for p in module_prefixes):
            continue
        n += 1
        for k, node in enumerate(hits(fn.node)):
            r.bad(fn, f"{fn.qualname}: '{_ast.unparse(node)}' tests a boolean flag against the literal: a flag that is truthy but not the object True (numpy.bool_ from a comparison, 1) takes the other branch - the wrong end / side is addressed without any error", node, key=f"flag#{k}")
    r.ok(None, f"{n} functions scanned; matcher verified on its embedded example", key="scan")
    return r

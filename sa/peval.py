"""E1 - index partial evaluator.

Constant folding / loop unrolling for *index* code only: int, bool, str, None, tuple, list, dict,
set values plus symbolic atoms (``Sym``).  Attribute chains are bound by the caller (``bind``),
unknown calls are either handled by a caller-supplied hook or make the evaluation fail closed
with ``NotEvaluable`` (turned into an ANALYSIS-ERROR by the rules).  Floats, numpy and anything
geometric are deliberately outside the domain: the evaluator never touches geometry.
"""

from __future__ import annotations

import ast
from fractions import Fraction
from collections import deque
from typing import Any, Callable, Dict, List, Optional, Tuple

from .model import AnalysisError, attr_chain


class NotEvaluable(AnalysisError):
    pass


class Sym:
    """A symbolic atom (a point, an edge payload, a patch slot...)."""

    __slots__ = ("name", "payload")

    def __init__(self, name: str, payload: Any = None):
        self.name = name
        self.payload = payload

    def __repr__(self):
        return self.name

    def __eq__(self, other):
        return isinstance(other, Sym) and other.name == self.name

    def __hash__(self):
        return hash(("Sym", self.name))


class Obj:
    """A symbolic record with attribute slots (mutable), e.g. a Face with .points/.edges."""

    def __init__(self, name: str, cls=None, **attrs):
        self.__dict__["_name"] = name
        self.__dict__["_cls"] = cls  # optional ClassInfo: enables method / property dispatch
        self.__dict__["_attrs"] = dict(attrs)

    def __repr__(self):
        return f"<{self._name}>"

    def get(self, key):
        if key not in self._attrs:
            raise NotEvaluable(f"{self._name} has no bound attribute {key}")
        return self._attrs[key]

    def set(self, key, value):
        self._attrs[key] = value

    def has(self, key):
        return key in self._attrs


class ModRef:
    """Reference to a repository module (``constants`` in ``constants.FACE_MAP``)."""

    def __init__(self, mod):
        self.mod = mod

    def __repr__(self):
        return f"<module {self.mod.name}>"


class Ref:
    """Reference to a repository class or function."""

    def __init__(self, target):
        self.target = target

    def __repr__(self):
        return f"<ref {self.target.qualname}>"


class SuperRef:
    """super() inside a method that is being evaluated abstractly."""

    def __init__(self, obj, after_cls):
        self.obj = obj
        self.after_cls = after_cls


class ExtRef:
    """Reference to a name of an external (stdlib / third-party) module."""

    def __init__(self, name: str):
        self.name = name

    def __repr__(self):
        return f"<external {self.name}>"


class Bound:
    def __init__(self, obj, func):
        self.obj = obj
        self.func = func


class _Return(Exception):
    def __init__(self, value):
        self.value = value


class _Break(Exception):
    pass


class _Continue(Exception):
    pass


class Raised(Exception):
    """The evaluated code executed a ``raise`` statement."""

    def __init__(self, exc_name: str):
        super().__init__(exc_name)
        self.exc_name = exc_name


ALLOWED = (int, bool, str, type(None), tuple, list, dict, set, frozenset, Sym, Obj, deque, range, slice, ModRef, Ref, Bound, ExtRef, SuperRef)


CallHook = Callable[["Evaluator", ast.Call, Optional[str]], Any]
NO_MATCH = object()


class Evaluator:
    def __init__(
        self,
        env: Optional[Dict[str, Any]] = None,
        bind: Optional[Dict[str, Any]] = None,
        call_hook: Optional[CallHook] = None,
        max_steps: int = 200000,
        repo=None,
        module=None,
    ):
        self.repo = repo
        self.extra_types: tuple = ()  # additional abstract value classes a rule brings along
        self.float_arith = False  # 1-D toy models of positions may use float arithmetic (never geometry of the repo)
        self.binop_hook = None  # optional callable(op, a, b) -> value | NO_MATCH
        self.opaque_arith = False  # if True, arithmetic on symbolic atoms yields an opaque geometry atom
        self.mod_stack: List[Any] = [module] if module is not None else []
        self._const_cache: Dict[Tuple[str, str], Any] = {}
        self.env: Dict[str, Any] = dict(env or {})
        self.bind: Dict[str, Any] = dict(bind or {})  # "self.points" -> value
        self.call_hook = call_hook
        self.steps = 0
        self.max_steps = max_steps
        self.log: List[Tuple[str, tuple]] = []  # recorder calls

    # ------------------------------------------------------------------
    def _tick(self):
        self.steps += 1
        if self.steps > self.max_steps:
            raise NotEvaluable("evaluation step budget exhausted")

    def _check(self, v, node):
        if isinstance(v, float):
            return v  # floats may be carried (tolerance constants) but no arithmetic is defined on them
        if self.extra_types and isinstance(v, self.extra_types):
            return v
        if not isinstance(v, ALLOWED) and not callable(v):
            raise NotEvaluable(f"value of type {type(v).__name__} outside the index domain: {ast.unparse(node)[:60]}")
        return v

    # ------------------------------------------------------------------ statements
    def run_function(self, fn: ast.FunctionDef, args: Dict[str, Any], module=None, closure: bool = True):
        saved = self.env
        self.env = dict(self.env) if closure else {}
        self.env.update(args)
        if module is not None:
            self.mod_stack.append(module)
        # defaults
        a = fn.args
        names = [x.arg for x in [*a.posonlyargs, *a.args]]
        for name, default in zip(reversed(names), reversed(a.defaults)):
            if name not in self.env:
                self.env[name] = self.eval(default)
        try:
            self.run_block(fn.body)
            return None
        except _Return as r:
            return r.value
        finally:
            self.env = saved
            if module is not None:
                self.mod_stack.pop()

    def call_value(self, fv, args: List[Any]):
        """Calls a function value of the evaluated program: a nested def or a lambda, with the variables of its defining frame."""
        if isinstance(fv, tuple) and fv and fv[0] == "<func>":
            fn = fv[1]
            names = [x.arg for x in fn.args.args]
            saved = self.env
            if len(fv) > 2 and isinstance(fv[2], dict):
                self.env = fv[2]
            try:
                return self.run_function(fn, dict(zip(names, args)))
            finally:
                self.env = saved
        if isinstance(fv, tuple) and fv and fv[0] == "<lambda>":
            lam, env = fv[1], fv[2]
            saved = self.env
            self.env = dict(env)
            for a, v in zip(lam.args.args, args):
                self.env[a.arg] = v
            try:
                return self.eval(lam.body)
            finally:
                self.env = saved
        raise NotEvaluable("call of a value that is not a function of the evaluated program")

    def _super_method(self, sref: "SuperRef", name: str):
        if sref.obj._cls is None or self.repo is None:
            raise NotEvaluable("super() on an object without class")
        mro = self.repo.mro(sref.obj._cls)
        if sref.after_cls not in mro:
            raise NotEvaluable("super(): defining class is not in the MRO of the object")
        for c in mro[mro.index(sref.after_cls) + 1 :]:
            if name in c.methods:
                return c.methods[name]
        raise NotEvaluable(f"super().{name} not found")

    def _external_call(self, name: str, args: List[Any], node: ast.Call):
        if name == "itertools.chain.from_iterable":
            out: List[Any] = []
            for part in self._iterate(args[0], node):
                out.extend(self._iterate(part, node))
            return out
        if name in ("copy.copy", "copy.deepcopy") and isinstance(args[0], (list, dict, set, tuple, int, str)):
            import copy as _copy

            return _copy.copy(args[0]) if name == "copy.copy" else _copy.deepcopy(args[0])
        if name == "collections.deque":
            return deque(self._iterate(args[0], node)) if args else deque()
        if name == "collections.defaultdict" and len(args) <= 1:
            import collections as _collections

            factory = None
            if args:
                fac = args[0]
                fname = fac.name if isinstance(fac, ExtRef) else None
                factory = {"builtins.list": list, "builtins.set": set, "builtins.dict": dict, "builtins.int": int}.get(fname or "")
                if factory is None:
                    raise NotEvaluable(f"defaultdict with factory {fac!r}")
            return _collections.defaultdict(factory)
        if name in ("warnings.warn", "print", "warnings.filterwarnings", "warnings.resetwarnings", "warnings.simplefilter", "logging.info", "logging.debug", "logging.warning"):
            return None  # diagnostics only
        if name == "warnings.catch_warnings":
            return Sym("context")
        if name == "typing.cast" and len(args) == 2:
            return args[1]
        if name in ("copy.copy", "copy.deepcopy") and isinstance(args[0], Obj):
            return self._copy_obj(args[0], deep=name.endswith("deepcopy"), memo={})
        if name == "functools.reduce" and len(args) in (2, 3) and isinstance(args[0], ExtRef) and args[0].name in ("operator.iadd", "operator.add", "operator.concat", "operator.iconcat"):
            items = list(self._iterate(args[1], node))
            if len(args) == 3:
                acc = args[2]
            elif items:
                acc, items = items[0], items[1:]
            else:
                raise Raised("TypeError")
            inplace = args[0].name in ("operator.iadd", "operator.iconcat")
            for it in items:
                if isinstance(acc, list) and isinstance(it, (list, tuple)):
                    if inplace:
                        acc.extend(it)  # operator.iadd on a list extends the FIRST list in place, exactly like Python does
                    else:
                        acc = acc + list(it)
                elif isinstance(acc, int) and isinstance(it, int):
                    acc = acc + it
                else:
                    raise NotEvaluable("functools.reduce over values outside the index domain")
            return acc
        if name in ("dataclasses.asdict", "dataclasses.replace") and args and isinstance(args[0], Obj) and args[0]._cls is not None and self.repo is not None:
            fields = self.dataclass_fields(args[0]._cls)
            if fields:
                if name.endswith("asdict"):
                    return {f: self._copy_val(args[0].get(f), {}) for f in fields}
                vals = {f: args[0].get(f) for f in fields}
                for kw in node.keywords:
                    if kw.arg is None or kw.arg not in fields:
                        raise NotEvaluable("dataclasses.replace with unknown field")
                    vals[kw.arg] = self.eval(kw.value)
                return self.instantiate(args[0]._cls, [], vals)
        raise NotEvaluable(f"external call {name} is outside the index domain")

    def _kwargs(self, n: ast.Call) -> Dict[str, Any]:
        out: Dict[str, Any] = {}
        for kw in n.keywords:
            if kw.arg is None:
                m = self.eval(kw.value)
                if not isinstance(m, dict) or not all(isinstance(k, str) for k in m):
                    raise NotEvaluable(f"** of a non-dict in {ast.unparse(n)[:60]}")
                out.update(m)
            else:
                out[kw.arg] = self.eval(kw.value)
        return out

    def dataclass_fields(self, cls) -> List[str]:
        if not any(c.is_dataclass for c in self.repo.mro(cls)):
            return []
        fields: List[str] = []
        for c in reversed(self.repo.mro(cls)):
            for fname, ann in c.class_annotations.items():
                if "ClassVar" not in ast.unparse(ann) and fname not in fields:
                    fields.append(fname)
        return fields

    def _copy_obj(self, obj: "Obj", deep: bool, memo: Dict[int, Any]):
        if id(obj) in memo:
            return memo[id(obj)]
        new = Obj(obj._name + "'", cls=obj._cls)
        memo[id(obj)] = new
        for k, v in obj._attrs.items():
            new.set(k, self._copy_val(v, memo) if deep else v)
        return new

    def _copy_val(self, v, memo):
        if isinstance(v, Obj):
            return self._copy_obj(v, True, memo)
        if isinstance(v, list):
            return [self._copy_val(x, memo) for x in v]
        if isinstance(v, tuple):
            return tuple(self._copy_val(x, memo) for x in v)
        if isinstance(v, dict):
            return {k: self._copy_val(x, memo) for k, x in v.items()}
        if isinstance(v, set):
            return set(v)
        return v

    def instantiate(self, cls, args: List[Any], kwargs: Optional[Dict[str, Any]] = None):
        """Creates a symbolic instance of a repository class by running its __init__ (or the
        dataclass field binding) abstractly."""
        self._n_objs = getattr(self, "_n_objs", 0) + 1
        obj = Obj(f"{cls.name}#{self._n_objs}", cls=cls)
        init = self.repo.find_method(cls, "__init__")
        if init is not None:
            self.call_funcinfo(init, [obj, *args], kwargs)
            return obj
        if any(c.is_dataclass for c in self.repo.mro(cls)):
            fields: List[str] = []
            defaults: Dict[str, Any] = {}
            for c in reversed(self.repo.mro(cls)):
                for fname, ann in c.class_annotations.items():
                    if "ClassVar" in ast.unparse(ann):
                        continue
                    if fname not in fields:
                        fields.append(fname)
                    if fname in c.class_vars:
                        defaults[fname] = c.class_vars[fname]
            if len(args) > len(fields):
                raise NotEvaluable(f"too many arguments for dataclass {cls.name}")
            vals = dict(zip(fields, args))
            vals.update(kwargs or {})
            for fname in fields:
                if fname not in vals:
                    if fname not in defaults:
                        raise NotEvaluable(f"missing field {fname} for dataclass {cls.name}")
                    vals[fname] = self.eval(defaults[fname])
                obj.set(fname, vals[fname])
            post = self.repo.find_method(cls, "__post_init__")
            if post is not None:
                self.call_funcinfo(post, [obj])
            return obj
        if args or kwargs:
            raise NotEvaluable(f"{cls.name} takes no constructor arguments")
        return obj

    def _isinstance(self, value, type_node: ast.expr) -> bool:
        types = type_node.elts if isinstance(type_node, ast.Tuple) else [type_node]
        prim = {"list": list, "tuple": tuple, "str": str, "int": int, "dict": dict, "set": set, "float": float, "bool": bool}
        for t in types:
            tn = ast.unparse(t)
            if tn in prim:
                if isinstance(value, (Sym,)):
                    raise NotEvaluable(f"isinstance({value}, {tn}) on a symbolic atom")
                if isinstance(value, prim[tn]) and not (tn == "int" and isinstance(value, bool)):
                    return True
                continue
            ref = self.eval(t)
            if isinstance(ref, Ref) and isinstance(value, Obj) and value._cls is not None:
                if ref.target in self.repo.mro(value._cls):
                    return True
                continue
            if isinstance(ref, Ref) and not isinstance(value, (Obj, Sym)):
                continue  # a plain value is never an instance of a repository class
            raise NotEvaluable(f"isinstance against {tn} not decidable for {value!r}")
        return False

    def call_method(self, obj: "Obj", name: str, args: List[Any], kwargs: Optional[Dict[str, Any]] = None):
        """Runs method `name` of a symbolic object through the repository's MRO."""
        fi = self.repo.find_method(obj._cls, name) if (self.repo is not None and obj._cls is not None) else None
        if fi is None:
            raise NotEvaluable(f"no method {name} on {obj}")
        return self.call_funcinfo(fi, [obj, *args] if not fi.is_staticmethod else list(args), kwargs)

    def call_funcinfo(self, fi, args: List[Any], kwargs: Optional[Dict[str, Any]] = None):
        a = fi.node.args
        names = [x.arg for x in [*a.posonlyargs, *a.args]]
        if len(args) > len(names):
            raise NotEvaluable(f"too many arguments for {fi.qualname}")
        bound = dict(zip(names, args))
        extra_kw = {}
        for k, v in (kwargs or {}).items():
            if k not in names and k not in [x.arg for x in a.kwonlyargs]:
                if a.kwarg is None:
                    raise NotEvaluable(f"unexpected keyword {k} for {fi.qualname}")
                extra_kw[k] = v  # collected by **kwargs
                continue
            bound[k] = v
        if a.kwarg is not None:
            bound[a.kwarg.arg] = extra_kw
        self._depth = getattr(self, "_depth", 0) + 1
        if self._depth > 40:
            raise NotEvaluable("call depth exceeded")
        if not hasattr(self, "_cls_stack"):
            self._cls_stack = []
        self._cls_stack.append((fi.cls, args[0] if args and fi.cls is not None and not fi.is_staticmethod else None))
        try:
            return self.run_function(fi.node, bound, module=fi.module, closure=False)
        finally:
            self._depth -= 1
            self._cls_stack.pop()

    def run_block(self, stmts: List[ast.stmt]):
        for st in stmts:
            self.run_stmt(st)

    def run_stmt(self, st: ast.stmt):
        self._tick()
        if isinstance(st, ast.Expr):
            if isinstance(st.value, ast.Constant):
                return
            self.eval(st.value)
        elif isinstance(st, ast.Assign):
            v = self.eval(st.value)
            for t in st.targets:
                self.assign(t, v)
        elif isinstance(st, ast.AnnAssign):
            if st.value is not None:
                self.assign(st.target, self.eval(st.value))
        elif isinstance(st, ast.AugAssign):
            cur = self.eval(_as_load(st.target))
            v = self._binop(st.op, cur, self.eval(st.value), st)
            self.assign(st.target, v)
        elif isinstance(st, ast.For):
            it = self.eval(st.iter)
            broke = False
            for item in self._iterate(it, st.iter):
                self.assign(st.target, item)
                try:
                    self.run_block(st.body)
                except _Break:
                    broke = True
                    break
                except _Continue:
                    continue
            if not broke:
                self.run_block(st.orelse)
        elif isinstance(st, ast.While):
            while self.truth(self.eval(st.test), st.test):
                self._tick()
                try:
                    self.run_block(st.body)
                except _Break:
                    break
                except _Continue:
                    continue
        elif isinstance(st, ast.If):
            if self.truth(self.eval(st.test), st.test):
                self.run_block(st.body)
            else:
                self.run_block(st.orelse)
        elif isinstance(st, ast.Return):
            raise _Return(self.eval(st.value) if st.value is not None else None)
        elif isinstance(st, ast.Break):
            raise _Break()
        elif isinstance(st, ast.Continue):
            raise _Continue()
        elif isinstance(st, ast.Pass):
            return
        elif isinstance(st, ast.Raise):
            name = (getattr(self, "_handling", None) or ["Exception"])[-1] if st.exc is None else "Exception"
            if st.exc is not None:
                e = st.exc.func if isinstance(st.exc, ast.Call) else st.exc
                name = ast.unparse(e)
            raise Raised(name)
        elif isinstance(st, ast.FunctionDef):
            self.env[st.name] = ("<func>", st, self.env)  # the defining frame's variables, by reference (closure)
        elif isinstance(st, ast.Try):
            self._run_try(st)
        elif isinstance(st, ast.With):
            for item in st.items:
                try:
                    v = self.eval(item.context_expr)
                except NotEvaluable:
                    v = Sym("context")
                if item.optional_vars is not None:
                    self.assign(item.optional_vars, v if v is not None else Sym("context"))
            self.run_block(st.body)
        elif isinstance(st, ast.Assert):
            return
        elif isinstance(st, ast.Delete):
            for t in st.targets:
                if isinstance(t, ast.Name):
                    self.env.pop(t.id, None)
                elif isinstance(t, ast.Subscript):
                    c = self.eval(t.value)
                    k = self._slice(t.slice)
                    try:
                        del c[k]
                    except Exception as err:  # noqa: BLE001
                        raise NotEvaluable(f"del {ast.unparse(t)}") from err
                else:
                    raise NotEvaluable(f"del {ast.unparse(t)}")
        elif isinstance(st, (ast.Global, ast.Nonlocal, ast.Import, ast.ImportFrom)):
            return
        else:
            raise NotEvaluable(f"statement kind {type(st).__name__} not supported: {ast.unparse(st)[:60]}")

    def _exc_matches(self, exc_name: str, type_node: Optional[ast.expr]) -> bool:
        if type_node is None:
            return True
        types = type_node.elts if isinstance(type_node, ast.Tuple) else [type_node]
        short = exc_name.split(".")[-1]
        for t in types:
            tn = ast.unparse(t).split(".")[-1]
            if tn in (short, "Exception", "BaseException"):
                return True
            if self.repo is not None:
                try:
                    c = self.repo.cls(short)
                    if any(b.name == tn for b in self.repo.mro(c)):
                        return True
                except Exception:  # noqa: BLE001
                    pass
            builtin = {"KeyError": "LookupError", "IndexError": "LookupError"}
            if builtin.get(short) == tn:
                return True
        return False

    def _run_try(self, st: ast.Try):
        try:
            try:
                self.run_block(st.body)
            except Raised as err:
                for h in st.handlers:
                    if self._exc_matches(err.exc_name, h.type):
                        if h.name:
                            self.env[h.name] = Sym(f"exc:{err.exc_name}")
                        self._handling = getattr(self, "_handling", []) + [err.exc_name]  # a bare `raise` in the handler re-raises it
                        try:
                            self.run_block(h.body)
                        finally:
                            self._handling = self._handling[:-1]
                        break
                else:
                    raise
            else:
                self.run_block(st.orelse)
        finally:
            if st.finalbody:
                self.run_block(st.finalbody)

    def assign(self, target: ast.expr, value):
        if isinstance(target, ast.Name):
            self.env[target.id] = value
        elif isinstance(target, (ast.Tuple, ast.List)):
            vals = list(self._iterate(value, target))
            if len(vals) != len(target.elts):
                raise NotEvaluable(f"unpacking mismatch at {ast.unparse(target)}")
            for t, v in zip(target.elts, vals):
                self.assign(t, v)
        elif isinstance(target, ast.Subscript):
            container = self.eval(target.value)
            key = self._slice(target.slice)
            if isinstance(container, list) and isinstance(key, slice) and key == slice(None, None, None) and isinstance(value, Sym):
                # a[:] = v with an opaque array v on a concrete list: numpy's element-wise copy - the list object stays, its content is v's
                for k_ in range(len(container)):
                    container[k_] = Sym(f"{value.name}[{k_}]")
            elif isinstance(container, list) and isinstance(key, list) and key and all(isinstance(k_, int) and not isinstance(k_, bool) for k_ in key) and isinstance(value, list) and len(value) == len(key):
                # numpy's a[[i, j, k]] = rows: row by row
                for k_, v_ in zip(key, value):
                    if not -len(container) <= k_ < len(container):
                        raise Raised("IndexError")
                    container[k_] = v_
            elif isinstance(container, (list, dict)):
                try:
                    container[key] = value
                except IndexError:
                    raise Raised("IndexError") from None
                except TypeError as err:
                    raise NotEvaluable(f"subscript store {ast.unparse(target)[:50]}: {err}") from None
            elif isinstance(container, Sym) and isinstance(target.slice, ast.Slice) and target.slice.lower is None and target.slice.upper is None and target.slice.step is None and isinstance(target.value, (ast.Attribute, ast.Name)):
                # a[:] = v on an opaque array: every element replaced - the content is v from here on (aliasing of opaque arrays is not tracked)
                self.assign(target.value, value)
            else:
                raise NotEvaluable(f"subscript store into {type(container).__name__}")
        elif isinstance(target, ast.Attribute):
            chain = attr_chain(target)
            base = self.eval(target.value)
            if isinstance(base, Obj):
                base.set(target.attr, value)
            elif chain is not None:
                self.bind[chain] = value
            else:
                raise NotEvaluable(f"attribute store {ast.unparse(target)}")
        else:
            raise NotEvaluable(f"assignment target {ast.unparse(target)}")

    # ------------------------------------------------------------------ expressions
    def truth(self, v, node) -> bool:
        if isinstance(v, (Sym, Obj)):
            raise NotEvaluable(f"truth value of symbolic atom in {ast.unparse(node)[:60]}")
        return bool(v)

    def _iterate(self, v, node):
        if isinstance(v, (list, tuple, set, frozenset, dict, range, deque, str)):
            if isinstance(v, (set, frozenset)):
                try:
                    return sorted(v, key=repr)
                except TypeError:
                    return list(v)
            return list(v)
        if isinstance(v, Obj) and v._cls is not None and self.repo is not None and self.repo.find_method(v._cls, "__iter__") is not None:
            # a class of the repository that defines __iter__ (return iter(<container>)): iterate what it hands out
            return self._iterate(self.call_method(v, "__iter__", []), node)
        raise NotEvaluable(f"cannot iterate {type(v).__name__} in {ast.unparse(node)[:60]}")

    def _slice(self, s: ast.expr):
        if isinstance(s, ast.Slice):
            lo = self.eval(s.lower) if s.lower is not None else None
            hi = self.eval(s.upper) if s.upper is not None else None
            st = self.eval(s.step) if s.step is not None else None
            return slice(lo, hi, st)
        return self.eval(s)

    def eval(self, node: ast.expr):
        self._tick()
        m = getattr(self, "_e_" + type(node).__name__, None)
        if m is None:
            raise NotEvaluable(f"expression kind {type(node).__name__}: {ast.unparse(node)[:60]}")
        return self._check(m(node), node)

    def _e_Constant(self, n):
        return n.value

    def _e_Name(self, n):
        if n.id in self.env:
            return self.env[n.id]
        if n.id in self.bind:
            return self.bind[n.id]
        if n.id in ("True", "False", "None"):
            return {"True": True, "False": False, "None": None}[n.id]
        if n.id in ("str", "int", "len", "abs", "list", "set", "dict", "float", "tuple", "bool"):
            return ExtRef(f"builtins.{n.id}")
        if self.repo is not None and self.mod_stack and self.mod_stack[-1] is not None:
            return self._module_name(self.mod_stack[-1], n.id)
        raise NotEvaluable(f"unbound name {n.id}")

    def _module_name(self, mod, name: str):
        from .model import ClassInfo, FuncInfo, Module

        obj = self.repo.resolve_name(mod, name)
        if isinstance(obj, Module):
            return ModRef(obj)
        if isinstance(obj, (ClassInfo, FuncInfo)):
            return Ref(obj)
        if isinstance(obj, tuple) and obj[0] == "const":
            key = (obj[2].name, ast.dump(obj[1])[:200] + str(getattr(obj[1], "lineno", 0)))
            if key not in self._const_cache:
                self.mod_stack.append(obj[2])
                saved = self.env
                self.env = {}
                try:
                    self._const_cache[key] = self.eval(obj[1])
                finally:
                    self.env = saved
                    self.mod_stack.pop()
            return self._const_cache[key]
        if isinstance(obj, tuple) and obj[0] in ("external", "extmodule"):
            return ExtRef(obj[1])
        raise NotEvaluable(f"unbound name {name} (module {mod.name})")

    def _e_Tuple(self, n):
        return tuple(self._elts(n.elts))

    def _e_List(self, n):
        return list(self._elts(n.elts))

    def _e_Set(self, n):
        return set(self._elts(n.elts))

    def _elts(self, elts):
        out = []
        for e in elts:
            if isinstance(e, ast.Starred):
                out.extend(self._iterate(self.eval(e.value), e))
            else:
                out.append(self.eval(e))
        return out

    def _e_Dict(self, n):
        d = {}
        for k, v in zip(n.keys, n.values):
            if k is None:
                d.update(self.eval(v))
            else:
                d[self.eval(k)] = self.eval(v)
        return d

    def _e_UnaryOp(self, n):
        v = self.eval(n.operand)
        if isinstance(n.op, ast.Not):
            return not self.truth(v, n)
        if isinstance(n.op, ast.USub) and isinstance(v, int):
            return -v
        if isinstance(n.op, (ast.USub, ast.UAdd)) and isinstance(v, float) and self.float_arith:
            return -v if isinstance(n.op, ast.USub) else v
        if isinstance(n.op, ast.USub) and self.extra_types and isinstance(v, self.extra_types) and hasattr(v, "__neg__"):
            return -v
        if self.opaque_arith and isinstance(v, (Sym, float)):
            return Sym("geom")
        if isinstance(n.op, ast.UAdd) and isinstance(v, int):
            return v
        raise NotEvaluable(f"unary op on {type(v).__name__}")

    def _binop(self, op, a, b, node):
        if self.binop_hook is not None:
            res = self.binop_hook(op, a, b)
            if res is not NO_MATCH:
                return res
        if self.opaque_arith and (isinstance(a, (Sym, float)) or isinstance(b, (Sym, float))):
            return Sym("geom")
        if isinstance(a, bool) or isinstance(b, bool):
            a, b = int(a) if isinstance(a, bool) else a, int(b) if isinstance(b, bool) else b
        if self.float_arith and isinstance(a, (int, float)) and isinstance(b, (int, float)) and (isinstance(a, float) or isinstance(b, float)):
            if isinstance(op, ast.Add):
                return a + b
            if isinstance(op, ast.Sub):
                return a - b
            if isinstance(op, ast.Mult):
                return a * b
            if isinstance(op, ast.Div) and b != 0:
                return a / b
        if self.float_arith and isinstance(a, int) and isinstance(b, int) and isinstance(op, ast.Div):
            if b == 0:
                raise Raised("ZeroDivisionError")
            return a / b
        if isinstance(a, int) and isinstance(b, int):
            if isinstance(op, ast.Add):
                return a + b
            if isinstance(op, ast.Sub):
                return a - b
            if isinstance(op, ast.Mult):
                return a * b
            if isinstance(op, ast.FloorDiv):
                if b == 0:
                    raise NotEvaluable("division by zero")
                return a // b
            if isinstance(op, ast.Mod):
                if b == 0:
                    raise NotEvaluable("modulo by zero")
                return a % b
            if isinstance(op, ast.Pow) and b >= 0:
                return a**b
        if isinstance(op, ast.Add):
            if isinstance(a, list) and isinstance(b, list):
                return a + b
            if isinstance(a, tuple) and isinstance(b, tuple):
                return a + b
            if isinstance(a, str) and isinstance(b, str):
                return a + b
        if isinstance(op, ast.Mult):
            if isinstance(a, (list, tuple, str)) and isinstance(b, int):
                return a * b
        if isinstance(op, ast.Sub) and isinstance(a, (set, frozenset)) and isinstance(b, (set, frozenset)):
            return a - b
        if isinstance(op, ast.BitXor) and isinstance(a, (set, frozenset)) and isinstance(b, (set, frozenset)):
            return a ^ b
        if isinstance(op, ast.BitAnd) and isinstance(a, (set, frozenset)) and isinstance(b, (set, frozenset)):
            return a & b
        if isinstance(op, ast.BitOr) and isinstance(a, (set, frozenset)) and isinstance(b, (set, frozenset)):
            return a | b
        if isinstance(op, ast.BitAnd) and isinstance(a, (set, frozenset)) and isinstance(b, (set, frozenset)):
            return a & b
        raise NotEvaluable(f"binary op {type(op).__name__} on {type(a).__name__},{type(b).__name__}: {ast.unparse(node)[:60]}")

    def _e_BinOp(self, n):
        return self._binop(n.op, self.eval(n.left), self.eval(n.right), n)

    def _e_BoolOp(self, n):
        if isinstance(n.op, ast.And):
            v = True
            for e in n.values:
                v = self.eval(e)
                if not self.truth(v, e):
                    return v
            return v
        v = False
        for e in n.values:
            v = self.eval(e)
            if self.truth(v, e):
                return v
        return v

    def _e_Compare(self, n):
        left = self.eval(n.left)
        for op, rnode in zip(n.ops, n.comparators):
            right = self.eval(rnode)
            if isinstance(op, ast.Eq):
                ok = self._equal(left, right)
            elif isinstance(op, ast.NotEq):
                ok = not self._equal(left, right)
            elif isinstance(op, ast.In):
                ok = self._contains(right, left)
            elif isinstance(op, ast.NotIn):
                ok = not self._contains(right, left)
            elif isinstance(op, ast.Is):
                ok = left is right
            elif isinstance(op, ast.IsNot):
                ok = left is not right
            else:
                # exact numbers of an abstract domain (sa/poly.py Rat with constant value) order like numbers
                if hasattr(left, "as_number"):
                    left = left.as_number()
                if hasattr(right, "as_number"):
                    right = right.as_number()
                if isinstance(left, (set, frozenset)) and isinstance(right, (set, frozenset)):
                    pass  # subset / superset tests
                elif not (isinstance(left, (int, float, Fraction)) and isinstance(right, (int, float, Fraction))):
                    raise NotEvaluable(f"ordering comparison on non-numbers: {ast.unparse(n)[:60]}")
                ok = {ast.Lt: left < right, ast.LtE: left <= right, ast.Gt: left > right, ast.GtE: left >= right}[type(op)]
            if not ok:
                return False
            left = right
        return True

    def _equal(self, a, b) -> bool:
        """== with the value semantics of dataclasses (records of a dataclass of the repository compare field by field)."""
        if isinstance(a, Obj) and isinstance(b, Obj) and a is not b and a._cls is not None and a._cls is b._cls and self.repo is not None:
            fields = self.dataclass_fields(a._cls)
            if fields and all(a.has(f) and b.has(f) for f in fields):
                return all(self._equal(a.get(f), b.get(f)) for f in fields)
        return a == b

    def _contains(self, container, item) -> bool:
        if isinstance(item, Obj) and isinstance(container, (list, tuple)) and item._cls is not None:
            return any(self._equal(x, item) for x in container)
        return item in container

    def _e_IfExp(self, n):
        return self.eval(n.body) if self.truth(self.eval(n.test), n.test) else self.eval(n.orelse)

    def _e_Subscript(self, n):
        base = self.eval(n.value)
        if isinstance(base, Ref):
            return base  # generic alias: Frame[EdgeLocation]
        if isinstance(base, Obj) and base._cls is not None and self.repo is not None and self.repo.find_method(base._cls, "__getitem__"):
            return self.call_method(base, "__getitem__", [self._slice(n.slice)])
        key = self._slice(n.slice)
        if self.extra_types and isinstance(base, self.extra_types) and hasattr(base, "c") and isinstance(key, int):
            try:
                return base.c[key]  # a component of a vector of an abstract domain (sa/poly.py Vec)
            except IndexError as err:
                raise Raised("IndexError") from err
        try:
            if isinstance(base, deque):
                base = list(base)
            if isinstance(base, (list, tuple, str, dict, range)):
                return base[key]
        except (IndexError, KeyError) as err:
            raise Raised(type(err).__name__) from err
        except TypeError as err:
            raise NotEvaluable(f"bad subscript {ast.unparse(n)[:60]}") from err
        raise NotEvaluable(f"subscript of {type(base).__name__}: {ast.unparse(n)[:60]}")

    def _e_Attribute(self, n):
        chain = attr_chain(n)
        if chain is not None and chain in self.bind:
            return self.bind[chain]
        base = None
        try:
            base = self.eval(n.value)
        except NotEvaluable:
            if chain is not None:
                raise NotEvaluable(f"unbound attribute chain {chain}") from None
            raise
        if isinstance(base, Obj):
            return self.obj_attr(base, n.attr)
        if isinstance(base, ModRef):
            return self._module_name(base.mod, n.attr)
        if isinstance(base, ExtRef):
            return ExtRef(f"{base.name}.{n.attr}")
        if isinstance(base, SuperRef):
            m = self._super_method(base, n.attr)
            if m.is_property:
                return self.call_funcinfo(m, [base.obj])
            return Bound(base.obj, m)
        if isinstance(base, Ref) and self.repo is not None:
            from .model import ClassInfo

            if isinstance(base.target, ClassInfo):
                v = self.repo.class_var(base.target, n.attr)
                if v is not None:
                    return self._class_var(v)
                m = self.repo.find_method(base.target, n.attr)
                if m is not None:
                    return Ref(m)
        raise NotEvaluable(f"attribute {n.attr} of {type(base).__name__} ({chain})")

    def _class_var(self, v):
        expr, owner = v
        key = (owner.qualname, ast.dump(expr)[:200] + str(getattr(expr, "lineno", 0)))
        if key not in self._const_cache:
            self.mod_stack.append(owner.module)
            saved = self.env
            self.env = {}
            try:
                self._const_cache[key] = self.eval(expr)
            finally:
                self.env = saved
                self.mod_stack.pop()
        return self._const_cache[key]

    def obj_attr(self, obj: "Obj", attr: str):
        if obj.has(attr):
            return obj.get(attr)
        if self.repo is not None and obj._cls is not None:
            m = self.repo.find_method(obj._cls, attr)
            if m is not None and m.is_property:
                return self.call_funcinfo(m, [obj])
            if m is not None:
                return Bound(obj, m)
            v = self.repo.class_var(obj._cls, attr)
            if v is not None:
                return self._class_var(v)
        raise NotEvaluable(f"{obj} has no bound attribute {attr}")

    def _comp(self, generators, body: Callable[[], None]):
        def rec(i):
            if i == len(generators):
                body()
                return
            g = generators[i]
            for item in self._iterate(self.eval(g.iter), g.iter):
                self.assign(g.target, item)
                if all(self.truth(self.eval(c), c) for c in g.ifs):
                    rec(i + 1)

        saved = dict(self.env)
        try:
            rec(0)
        finally:
            # comprehension scope: restore names that were shadowed
            for k in list(self.env):
                if k not in saved:
                    del self.env[k]
                else:
                    self.env[k] = saved[k]

    def _e_ListComp(self, n):
        out = []
        self._comp(n.generators, lambda: out.append(self.eval(n.elt)))
        return out

    def _e_GeneratorExp(self, n):
        return self._e_ListComp(n)

    def _e_SetComp(self, n):
        out = set()
        self._comp(n.generators, lambda: out.add(_freeze(self.eval(n.elt))))
        return out

    def _e_DictComp(self, n):
        out = {}

        def body():
            out[self.eval(n.key)] = self.eval(n.value)

        self._comp(n.generators, body)
        return out

    def _e_Lambda(self, n):
        return ("<lambda>", n, dict(self.env))

    def _key_function(self, node: ast.expr):
        k = self.eval(node)
        if isinstance(k, ExtRef) and k.name.startswith("builtins.str.") and hasattr(str, k.name.split(".")[-1]):
            meth = getattr(str, k.name.split(".")[-1])
            return lambda v: meth(v)
        if isinstance(k, ExtRef) and k.name in ("builtins.len", "builtins.abs", "builtins.str", "builtins.int"):
            return {"builtins.len": len, "builtins.abs": abs, "builtins.str": str, "builtins.int": int}[k.name]
        if isinstance(k, tuple) and k and k[0] == "<lambda>":
            lam, env = k[1], k[2]

            def call(v):
                saved = self.env
                self.env = dict(env)
                self.env[lam.args.args[0].arg] = v
                try:
                    return self.eval(lam.body)
                finally:
                    self.env = saved

            return call
        raise NotEvaluable(f"key function {ast.unparse(node)[:40]} not supported")

    def _sorted(self, items, call: ast.Call):
        key = None
        rev = False
        for kw in call.keywords:
            if kw.arg == "key":
                key = self._key_function(kw.value)
            elif kw.arg == "reverse":
                rev = bool(self.eval(kw.value))
        keys = [key(x) if key else x for x in items]
        if not (all(isinstance(k, (int, float)) and not isinstance(k, bool) for k in keys) or all(isinstance(k, str) for k in keys) or all(isinstance(k, tuple) for k in keys)):
            raise NotEvaluable("sort keys are not all numbers / strings")
        order = sorted(range(len(items)), key=lambda i: keys[i], reverse=rev)
        return [items[i] for i in order]

    def _e_JoinedStr(self, n):
        out = []
        for part in n.values:
            if isinstance(part, ast.Constant):
                out.append(str(part.value))
                continue
            try:
                v = self.eval(part.value)
                spec = self._e_JoinedStr(part.format_spec) if part.format_spec is not None else ""
                if isinstance(v, (int, float, str)) and not isinstance(v, bool):
                    out.append(format(v, spec))
                else:
                    out.append(str(v))
            except (NotEvaluable, ValueError, TypeError):
                out.append("<?>")  # message text whose parts lie outside the index domain
        return "".join(out)

    def _e_Call(self, n: ast.Call):
        name = attr_chain(n.func)
        if self.call_hook is not None:
            r = self.call_hook(self, n, name)
            if r is not NO_MATCH:
                return r
        if name == "print":
            return None
        if n.keywords and not (name in ("sorted", "enumerate")) and not isinstance(n.func, ast.Attribute):
            if not (isinstance(n.func, ast.Name) and n.func.id not in self.env and self.repo is not None):
                raise NotEvaluable(f"keyword arguments in call {ast.unparse(n)[:60]}")
        # local nested function
        if isinstance(n.func, ast.Name) and isinstance(self.env.get(n.func.id), tuple) and self.env[n.func.id][0] == "<func>":
            return self.call_value(self.env[n.func.id], [self.eval(a) for a in n.args])
        if isinstance(n.func, ast.Name) and n.func.id not in self.env and self.repo is not None and self.mod_stack and self.mod_stack[-1] is not None:
            from .model import FuncInfo

            obj = self.repo.resolve_name(self.mod_stack[-1], n.func.id)
            if isinstance(obj, FuncInfo):
                kwargs = self._kwargs(n)
                return self.call_funcinfo(obj, self._elts(n.args), kwargs)
        if isinstance(n.func, (ast.Name, ast.Attribute, ast.Subscript)) and self.repo is not None and name not in ("isinstance",):
            target = None
            if isinstance(n.func, ast.Name) and n.func.id in self.env:
                target = self.env[n.func.id] if isinstance(self.env[n.func.id], Ref) else None
            elif isinstance(n.func, ast.Name):
                try:
                    target = self._e_Name(n.func)
                except NotEvaluable:
                    target = None
            elif isinstance(n.func, ast.Subscript):
                try:
                    target = self.eval(n.func)
                except NotEvaluable:
                    target = None
            if isinstance(target, Ref):
                from .model import ClassInfo, FuncInfo

                kwargs = self._kwargs(n)
                if isinstance(target.target, ClassInfo):
                    return self.instantiate(target.target, self._elts(n.args), kwargs)
                if isinstance(target.target, FuncInfo) and isinstance(n.func, ast.Name):
                    return self.call_funcinfo(target.target, self._elts(n.args), kwargs)
        if name == "super" and not n.args:
            stack = getattr(self, "_cls_stack", [])
            if not stack or stack[-1][0] is None or not isinstance(stack[-1][1], Obj):
                raise NotEvaluable("super() outside a method evaluated on a symbolic object")
            return SuperRef(stack[-1][1], stack[-1][0])
        if name in ("getattr", "hasattr") and len(n.args) >= 2:
            target = self.eval(n.args[0])
            attr = self.eval(n.args[1])
            if isinstance(target, Obj) and isinstance(attr, str):
                try:
                    val = self.obj_attr(target, attr)
                    return True if name == "hasattr" else val
                except NotEvaluable:
                    if name == "hasattr":
                        return False
                    if len(n.args) > 2:
                        return self.eval(n.args[2])
                    raise Raised("AttributeError") from None
            raise NotEvaluable(f"{name}() on a non-object")
        if name == "isinstance" and len(n.args) == 2:
            return self._isinstance(self.eval(n.args[0]), n.args[1])
        if isinstance(n.func, ast.Name) and isinstance(self.env.get(n.func.id), Bound):
            b = self.env[n.func.id]
            return self.call_funcinfo(b.func, [b.obj, *self._elts(n.args)])
        if isinstance(n.func, ast.Name):
            f = n.func.id
            args = self._elts(n.args)
            if f == "range" and all(isinstance(a, int) for a in args):
                return list(range(*args))
            if f == "len":
                return len(args[0])
            if f in ("list",):
                return list(self._iterate(args[0], n)) if args else []
            if f == "tuple":
                return tuple(self._iterate(args[0], n)) if args else ()
            if f == "set":
                return set(_freeze(x) for x in self._iterate(args[0], n)) if args else set()
            if f == "frozenset":
                return frozenset(_freeze(x) for x in self._iterate(args[0], n)) if args else frozenset()
            if f == "dict" and not args:
                return {}
            if f == "dict" and len(args) == 1 and not n.keywords:
                if isinstance(args[0], dict):
                    return dict(args[0])
                pairs = [tuple(self._iterate(x, n)) for x in self._iterate(args[0], n)]
                if all(len(p) == 2 for p in pairs):
                    return {_freeze(k): v for k, v in pairs}
            if f == "sorted":
                return self._sorted(list(self._iterate(args[0], n)), n)
            if f == "reversed":
                return list(reversed(self._iterate(args[0], n)))
            if f == "iter" and len(args) == 1:
                return list(self._iterate(args[0], n))  # consumed once by the for loop that asked for it
            if f == "enumerate":
                start = 0
                if len(args) > 1:
                    start = args[1]
                for kw in n.keywords:
                    if kw.arg == "start":
                        start = self.eval(kw.value)
                return [(i + start, x) for i, x in enumerate(self._iterate(args[0], n))]
            if f == "zip":
                return [tuple(t) for t in zip(*[self._iterate(a, n) for a in args])]
            if f == "round" and len(args) == 1 and isinstance(args[0], (int, float)) and not isinstance(args[0], bool):
                return round(args[0])
            if f in ("abs", "min", "max", "sum"):
                flat = args[0] if len(args) == 1 and not isinstance(args[0], (int, float)) else args
                flat = self._iterate(flat, n) if not isinstance(flat, list) else flat
                if not all(isinstance(x, int) for x in flat) and not (self.float_arith and all(isinstance(x, (int, float)) and not isinstance(x, bool) for x in flat)):
                    raise NotEvaluable(f"{f}() over non-integers")
                if f == "abs":
                    return abs(args[0])
                return {"min": min, "max": max, "sum": sum}[f](flat)
            if f == "int" and isinstance(args[0], int):
                return args[0]
            if f == "str":
                return str(args[0])
            if f == "print":
                return None
            if f == "cast" and len(args) == 2:
                return args[1]
            if f == "bool" and args:
                return self.truth(args[0], n)
            if f == "isinstance":
                raise NotEvaluable("isinstance in index code")
            if f == "any":
                return any(self.truth(x, n) for x in self._iterate(args[0], n))
            if f == "all":
                return all(self.truth(x, n) for x in self._iterate(args[0], n))
        if name in ("collections.deque", "deque"):
            args = self._elts(n.args)
            return deque(self._iterate(args[0], n)) if args else deque()
        if isinstance(n.func, ast.Attribute):
            recv = self.eval(n.func.value)
            args = self._elts(n.args)
            meth = n.func.attr
            if isinstance(recv, Obj) and recv.has(meth) and isinstance(recv.get(meth), tuple) and recv.get(meth) and recv.get(meth)[0] in ("<func>", "<lambda>"):
                return self.call_value(recv.get(meth), args)
            if isinstance(recv, Obj) and recv._cls is not None and self.repo is not None and not recv.has(meth):
                kwargs = self._kwargs(n)
                return self.call_method(recv, meth, args, kwargs)
            if isinstance(recv, ExtRef):
                return self._external_call(f"{recv.name}.{meth}", args, n)
            if isinstance(recv, SuperRef):
                m = self._super_method(recv, meth)
                kwargs = self._kwargs(n)
                return self.call_funcinfo(m, [recv.obj, *args], kwargs)
            if isinstance(recv, (ModRef, Ref)):
                tgt = self._e_Attribute(n.func)
                if isinstance(tgt, Ref):
                    from .model import FuncInfo

                    if isinstance(tgt.target, FuncInfo):
                        kwargs = self._kwargs(n)
                        if tgt.target.is_classmethod and isinstance(recv, Ref):
                            # Class.method(...): the class itself is bound to the first parameter
                            return self.call_funcinfo(tgt.target, [recv, *args], kwargs)
                        return self.call_funcinfo(tgt.target, args, kwargs)
                raise NotEvaluable(f"call not evaluable: {ast.unparse(n)[:80]}")
            if isinstance(recv, list):
                if meth == "append":
                    recv.append(args[0])
                    return None
                if meth == "extend":
                    recv.extend(self._iterate(args[0], n))
                    return None
                if meth == "reverse":
                    recv.reverse()
                    return None
                if meth == "index":
                    try:
                        return recv.index(args[0])
                    except ValueError as err:
                        raise Raised("ValueError") from err
                if meth == "count":
                    return recv.count(args[0])
                if meth == "copy":
                    return list(recv)
                if meth == "insert":
                    recv.insert(args[0], args[1])
                    return None
                if meth == "pop":
                    return recv.pop(*args)
                if meth == "remove":
                    for i_, x_ in enumerate(recv):
                        if x_ is args[0] or self._equal(x_, args[0]):
                            del recv[i_]
                            return None
                    raise Raised("ValueError")
                if meth == "clear":
                    del recv[:]
                    return None
                if meth == "sort":
                    recv[:] = self._sorted(list(recv), n)
                    return None
            if isinstance(recv, str):
                if meth == "split":
                    return recv.split(*args)
                if meth in ("startswith", "endswith") and all(isinstance(a, (str, tuple)) for a in args):
                    return getattr(recv, meth)(*args)
                if meth in ("lstrip", "rstrip", "strip", "lower", "upper", "capitalize"):
                    return getattr(recv, meth)(*args)
                if meth == "join":
                    parts = self._iterate(args[0], n)
                    return recv.join(str(x) for x in parts)
            if isinstance(recv, tuple) and meth == "index":
                try:
                    return recv.index(args[0])
                except ValueError as err:
                    raise Raised("ValueError") from err
            if isinstance(recv, deque):
                if meth == "rotate":
                    recv.rotate(*args)
                    return None
                if meth == "reverse":
                    recv.reverse()
                    return None
                if meth in ("index", "count"):
                    return getattr(recv, meth)(*args)
                if meth == "append":
                    recv.append(args[0])
                    return None
            if isinstance(recv, dict):
                if meth == "items":
                    return [(k, v) for k, v in recv.items()]
                if meth == "keys":
                    return list(recv.keys())
                if meth == "values":
                    return list(recv.values())
                if meth == "get":
                    return recv.get(*args)
                if meth == "update":
                    recv.update(args[0])
                    return None
            if isinstance(recv, (set, frozenset)):
                if meth == "add":
                    recv.add(_freeze(args[0]))
                    return None
                if meth == "discard":
                    recv.discard(_freeze(args[0]))
                    return None
                if meth == "remove":
                    try:
                        recv.remove(_freeze(args[0]))
                    except KeyError as err:
                        raise Raised("KeyError") from err
                    return None
                if meth == "clear":
                    recv.clear()
                    return None
                if meth == "copy":
                    return set(recv)
                if meth == "update":
                    recv.update(_freeze(x) for x in self._iterate(args[0], n))
                    return None
                if meth in ("intersection", "union", "difference", "issubset", "issuperset", "isdisjoint", "symmetric_difference"):
                    return getattr(recv, meth)(set(self._iterate(args[0], n)))
        raise NotEvaluable(f"call not evaluable: {ast.unparse(n)[:80]}")


def _freeze(v):
    if isinstance(v, list):
        return tuple(_freeze(x) for x in v)
    if isinstance(v, set):
        return frozenset(_freeze(x) for x in v)
    return v


def _as_load(target: ast.expr) -> ast.expr:
    import copy

    t = copy.copy(target)
    t.ctx = ast.Load()
    return t


def eval_literal_table(node: ast.expr, env: Optional[Dict[str, Any]] = None):
    """Evaluates a module/class-level table expression (literals + index arithmetic)."""
    return Evaluator(env=env).eval(node)


def empty_defaults(repo, cls, obj: "Obj") -> "Obj":
    """Gives a model object every attribute the class' constructor initialises with an EMPTY container (``self.x = []``,
    ``set()``, ``{}``) and the model has not set itself - so that a rule's model does not have to know about bookkeeping
    attributes it is not about (they start empty in the real object too). Anything else must be set by the rule."""
    for c in repo.mro(cls):
        init = c.methods.get("__init__")
        if init is None:
            continue
        selfname = init.params[0] if init.params else "self"
        for n in ast.walk(init.node):
            if isinstance(n, (ast.Assign, ast.AnnAssign)) and n.value is not None:
                for t in n.targets if isinstance(n, ast.Assign) else [n.target]:
                    if isinstance(t, ast.Attribute) and isinstance(t.value, ast.Name) and t.value.id == selfname and not obj.has(t.attr):
                        v = n.value
                        if isinstance(v, ast.List) and not v.elts:
                            obj.set(t.attr, [])
                        elif isinstance(v, ast.Dict) and not v.keys:
                            obj.set(t.attr, {})
                        elif isinstance(v, ast.Call) and isinstance(v.func, ast.Name) and v.func.id in ("set", "list", "dict") and not v.args:
                            obj.set(t.attr, {"set": set(), "list": [], "dict": {}}[v.func.id])
    return obj

"""E2 - per-function statement CFG with path queries.

Node kinds: 'entry', 'stmt' (simple statement), 'if'/'while' (test), 'for' (iteration header),
'with' (context entry), 'except' (handler header), 'return-exit', 'raise-exit'.
Exception edges leave only statements inside ``try`` bodies (to every handler, and - conservatively -
outwards when no bare/Exception handler exists); ``finally`` bodies are duplicated per entry kind
(normal / exceptional / return / break / continue) so that no infeasible merge paths are created.
"""

from __future__ import annotations

import ast
from dataclasses import dataclass, field
from typing import Callable, Dict, Iterable, List, Optional, Set, Tuple


@dataclass
class Node:
    id: int
    kind: str
    stmt: Optional[ast.AST] = None
    label: str = ""

    def __hash__(self):
        return self.id

    def __eq__(self, other):
        return isinstance(other, Node) and other.id == self.id

    def __repr__(self):
        txt = ""
        if self.stmt is not None:
            try:
                txt = ast.unparse(self.stmt).split("\n")[0][:60]
            except Exception:  # noqa: BLE001
                txt = type(self.stmt).__name__
        return f"<{self.id}:{self.kind} {txt}>"

    @property
    def lineno(self) -> int:
        return getattr(self.stmt, "lineno", 0)


@dataclass
class _Ctx:
    """Where control goes for the non-local jumps."""

    ret: "Node"
    exc: "Node"  # uncaught exception target
    brk: Optional["Node"] = None
    cont: Optional["Node"] = None
    handlers: Tuple["Node", ...] = ()  # handler headers of the innermost enclosing try body
    catches_all: bool = False
    in_try: bool = False


class CFG:
    def __init__(self, func: ast.AST):
        self.func = func
        self.nodes: List[Node] = []
        self.succ: Dict[int, Set[int]] = {}
        self.pred: Dict[int, Set[int]] = {}
        self.entry = self._new("entry")
        self.exit_return = self._new("return-exit")
        self.exit_raise = self._new("raise-exit")
        ctx = _Ctx(ret=self.exit_return, exc=self.exit_raise)
        body = func.body if not isinstance(func, ast.Lambda) else [ast.Expr(func.body)]
        ends = self._block(body, [self.entry], ctx)
        for e in ends:
            self._edge(e, self.exit_return)

    # -- construction -------------------------------------------------------------------------
    def _new(self, kind: str, stmt: Optional[ast.AST] = None, label: str = "") -> Node:
        n = Node(len(self.nodes), kind, stmt, label)
        self.nodes.append(n)
        self.succ[n.id] = set()
        self.pred[n.id] = set()
        return n

    def _edge(self, a: Node, b: Node) -> None:
        self.succ[a.id].add(b.id)
        self.pred[b.id].add(a.id)

    def _exc_edges(self, n: Node, ctx: _Ctx) -> None:
        if ctx.in_try:
            for h in ctx.handlers:
                self._edge(n, h)
            if not ctx.catches_all:
                self._edge(n, ctx.exc)

    def _block(self, stmts: List[ast.stmt], preds: List[Node], ctx: _Ctx) -> List[Node]:
        """Builds nodes for a statement list; returns the nodes from which control falls out."""
        cur = list(preds)
        for st in stmts:
            if not cur:
                break  # unreachable code
            cur = self._stmt(st, cur, ctx)
        return cur

    def _stmt(self, st: ast.stmt, preds: List[Node], ctx: _Ctx) -> List[Node]:
        if isinstance(st, ast.If):
            n = self._new("if", st)
            for p in preds:
                self._edge(p, n)
            self._exc_edges(n, ctx)
            t_ends = self._block(st.body, [n], ctx)
            f_ends = self._block(st.orelse, [n], ctx) if st.orelse else [n]
            return [*t_ends, *f_ends]
        if isinstance(st, (ast.For, ast.AsyncFor, ast.While)):
            n = self._new("for" if not isinstance(st, ast.While) else "while", st)
            for p in preds:
                self._edge(p, n)
            self._exc_edges(n, ctx)
            after = self._new("join", st, "loop-exit")
            inner = _Ctx(ctx.ret, ctx.exc, brk=after, cont=n, handlers=ctx.handlers, catches_all=ctx.catches_all, in_try=ctx.in_try)
            b_ends = self._block(st.body, [n], inner)
            for e in b_ends:
                self._edge(e, n)
            infinite = isinstance(st, ast.While) and isinstance(st.test, ast.Constant) and bool(st.test.value)
            if not infinite:
                if st.orelse:
                    for e in self._block(st.orelse, [n], ctx):
                        self._edge(e, after)
                else:
                    self._edge(n, after)
            return [after] if self.pred[after.id] else []
        if isinstance(st, (ast.With, ast.AsyncWith)):
            n = self._new("with", st)
            for p in preds:
                self._edge(p, n)
            self._exc_edges(n, ctx)
            return self._block(st.body, [n], ctx)
        if isinstance(st, ast.Try):
            return self._try(st, preds, ctx)
        if isinstance(st, ast.Return):
            n = self._new("stmt", st)
            for p in preds:
                self._edge(p, n)
            self._exc_edges(n, ctx)
            self._edge(n, ctx.ret)
            return []
        if isinstance(st, ast.Raise):
            n = self._new("stmt", st)
            for p in preds:
                self._edge(p, n)
            if ctx.in_try:
                for h in ctx.handlers:
                    self._edge(n, h)
                if not ctx.catches_all:
                    self._edge(n, ctx.exc)
            else:
                self._edge(n, ctx.exc)
            return []
        if isinstance(st, ast.Break):
            n = self._new("stmt", st)
            for p in preds:
                self._edge(p, n)
            if ctx.brk is not None:
                self._edge(n, ctx.brk)
            return []
        if isinstance(st, ast.Continue):
            n = self._new("stmt", st)
            for p in preds:
                self._edge(p, n)
            if ctx.cont is not None:
                self._edge(n, ctx.cont)
            return []
        if isinstance(st, (ast.FunctionDef, ast.AsyncFunctionDef, ast.ClassDef)):
            n = self._new("stmt", st, "def")
            for p in preds:
                self._edge(p, n)
            return [n]
        if isinstance(st, ast.Match):
            n = self._new("if", st)
            for p in preds:
                self._edge(p, n)
            ends: List[Node] = [n]
            for case in st.cases:
                ends.extend(self._block(case.body, [n], ctx))
            return ends
        # simple statement
        n = self._new("stmt", st)
        for p in preds:
            self._edge(p, n)
        self._exc_edges(n, ctx)
        return [n]

    def _try(self, st: ast.Try, preds: List[Node], ctx: _Ctx) -> List[Node]:
        has_finally = bool(st.finalbody)

        def through_finally(target: Node, label: str) -> Node:
            """Returns a node to jump to instead of `target` that first runs a copy of finally."""
            if not has_finally:
                return target
            head = self._new("join", st, f"finally-{label}")
            ends = self._block(st.finalbody, [head], ctx)
            for e in ends:
                self._edge(e, target)
            return head

        # targets seen from inside try body / handlers
        ret_t = through_finally(ctx.ret, "return")
        exc_t = through_finally(ctx.exc, "raise")
        brk_t = through_finally(ctx.brk, "break") if ctx.brk is not None else None
        cont_t = through_finally(ctx.cont, "continue") if ctx.cont is not None else None

        handler_heads: List[Node] = []
        catches_all = False
        for h in st.handlers:
            handler_heads.append(self._new("except", h))
            if h.type is None or ast.unparse(h.type) in ("Exception", "BaseException"):
                catches_all = True

        body_ctx = _Ctx(ret_t, exc_t, brk_t, cont_t, tuple(handler_heads), catches_all, True)
        # the first statement may raise before executing: model via edges from try entry preds
        b_ends = self._block(st.body, preds, body_ctx)
        # handlers run in the enclosing exception context (but through this finally)
        h_ctx = _Ctx(ret_t, exc_t, brk_t, cont_t, ctx.handlers if not has_finally else (), ctx.catches_all if not has_finally else False, ctx.in_try if not has_finally else False)
        if has_finally:
            # exceptions inside handlers go through finally, then to the outer context
            h_ctx = _Ctx(ret_t, exc_t, brk_t, cont_t, (), False, True)
        h_ends: List[Node] = []
        for head, h in zip(handler_heads, st.handlers):
            h_ends.extend(self._block(h.body, [head], h_ctx))
        else_ends = self._block(st.orelse, b_ends, h_ctx) if st.orelse else b_ends
        normal = [*else_ends, *h_ends]
        if has_finally:
            head = self._new("join", st, "finally-normal")
            for e in normal:
                self._edge(e, head)
            if not normal:
                return []
            return self._block(st.finalbody, [head], ctx)
        return normal

    # -- queries ------------------------------------------------------------------------------
    def stmt_nodes(self, pred: Optional[Callable[[Node], bool]] = None) -> List[Node]:
        return [n for n in self.nodes if n.stmt is not None and n.kind != "join" and (pred is None or pred(n))]

    def nodes_of(self, stmt: ast.AST) -> List[Node]:
        return [n for n in self.nodes if n.stmt is stmt and n.kind != "join"]

    def reach(self, sources: Iterable[Node], avoid: Optional[Callable[[Node], bool]] = None, backwards: bool = False) -> Set[int]:
        """Ids of nodes reachable from sources along paths whose *intermediate and final* nodes do not
        satisfy `avoid` (sources themselves are always expanded)."""
        adj = self.pred if backwards else self.succ
        seen: Set[int] = set()
        work = []
        for s in sources:
            for t in adj[s.id]:
                work.append(t)
        while work:
            i = work.pop()
            if i in seen:
                continue
            if avoid is not None and avoid(self.nodes[i]):
                continue
            seen.add(i)
            work.extend(adj[i] - seen)
        return seen

    def path_avoiding(self, a: Node, b: Node, avoid: Callable[[Node], bool]) -> Optional[List[Node]]:
        """A witness path a -> b none of whose intermediate nodes satisfies avoid (None if none)."""
        prev: Dict[int, int] = {}
        work = [a.id]
        seen = {a.id}
        while work:
            i = work.pop(0)
            for t in sorted(self.succ[i]):
                if t in seen:
                    continue
                if t == b.id:
                    prev[t] = i
                    path = [t]
                    while path[-1] != a.id:
                        path.append(prev[path[-1]])
                    return [self.nodes[k] for k in reversed(path)]
                if avoid(self.nodes[t]):
                    continue
                seen.add(t)
                prev[t] = i
                work.append(t)
        return None

    def must_pass(self, a: Node, b: Node, through: Callable[[Node], bool]) -> Tuple[bool, Optional[List[Node]]]:
        """True iff every path a -> b contains a node satisfying `through` (strictly between a and b,
        or b itself does not count). Returns (holds, counterexample path)."""
        if not self.is_reachable(a, b):
            return True, None
        path = self.path_avoiding(a, b, through)
        return path is None, path

    def is_reachable(self, a: Node, b: Node) -> bool:
        return b.id in self.reach([a])

    def dominates(self, d: Node, n: Node) -> bool:
        """d dominates n: every path entry -> n passes through d (d == n counts)."""
        if d.id == n.id:
            return True
        if n.id not in self.reach([self.entry]):
            return True
        return n.id not in self.reach([self.entry], avoid=lambda x: x.id == d.id)

    def dominated_by(self, n: Node, pred: Callable[[Node], bool]) -> bool:
        """Every path entry -> n passes through some node satisfying pred (n itself excluded)."""
        if n.id not in self.reach([self.entry]):
            return True
        return n.id not in self.reach([self.entry], avoid=lambda x: x.id != n.id and pred(x))

    def normal_exits_pass(self, through: Callable[[Node], bool]) -> Tuple[bool, Optional[List[Node]]]:
        return self.must_pass(self.entry, self.exit_return, through)

    def reachable_nodes(self) -> Set[int]:
        return self.reach([self.entry]) | {self.entry.id}


def in_branch(node: ast.AST, ifnode: ast.If) -> Optional[str]:
    """'body' / 'orelse' if node is (transitively) inside that branch of ifnode."""
    from .model import parent

    child = node
    par = parent(node)
    while par is not None:
        if par is ifnode:
            if any(child is s for s in ifnode.body):
                return "body"
            if any(child is s for s in ifnode.orelse):
                return "orelse"
            return None
        child, par = par, parent(par)
    return None

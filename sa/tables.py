"""Extraction of the repository's literal index tables by partial evaluation (E1)."""

from __future__ import annotations

import ast
from typing import Any, Dict, Optional

from .model import AnalysisError, ClassInfo, Module, Repo
from .peval import Evaluator, NotEvaluable


def module_tables(repo: Repo, mod: Module, names, extra_env: Optional[Dict[str, Any]] = None) -> Dict[str, Any]:
    """Evaluates the named module-level tables in source order (earlier tables feed later ones)."""
    ev = Evaluator(env=dict(extra_env or {}))
    out: Dict[str, Any] = {}
    wanted = set(names)
    for node in mod.tree.body:
        tgt = None
        val = None
        if isinstance(node, ast.Assign) and len(node.targets) == 1 and isinstance(node.targets[0], ast.Name):
            tgt, val = node.targets[0].id, node.value
        elif isinstance(node, ast.AnnAssign) and isinstance(node.target, ast.Name) and node.value is not None:
            tgt, val = node.target.id, node.value
        if tgt in wanted:
            try:
                v = ev.eval(val)
            except NotEvaluable as err:
                raise AnalysisError(f"table {mod.name}.{tgt} is not evaluable: {err}") from err
            ev.env[tgt] = v
            out[tgt] = v
    missing = wanted - set(out)
    if missing:
        raise AnalysisError(f"anchor table(s) vanished from {mod.name}: {sorted(missing)}")
    return out


def constants(repo: Repo) -> Dict[str, Any]:
    mod = repo.module("util.constants")
    return module_tables(repo, mod, ["FACE_MAP", "SIDES_MAP", "AXIS_PAIRS", "EDGE_PAIRS"])


def class_table(repo: Repo, cls: ClassInfo, name: str, env: Optional[Dict[str, Any]] = None):
    v = repo.class_var(cls, name)
    if v is None:
        raise AnalysisError(f"anchor class variable vanished: {cls.qualname}.{name}")
    expr, owner = v
    e = Evaluator(env=dict(env or {}))
    # names imported from util.constants
    try:
        return e.eval(expr)
    except NotEvaluable:
        consts = constants(repo)
        e = Evaluator(env={**consts, **dict(env or {})})
        # allow constants.X attribute form
        e.bind.update({f"constants.{k}": v for k, v in consts.items()})
        try:
            return e.eval(expr)
        except NotEvaluable as err:
            raise AnalysisError(f"table {cls.qualname}.{name} is not evaluable: {err}") from err


def const_env(repo: Repo) -> Dict[str, Any]:
    """Environment + attribute bindings under which index code of the repo can be evaluated."""
    c = constants(repo)
    return c


def const_bind(repo: Repo) -> Dict[str, Any]:
    c = constants(repo)
    return {f"constants.{k}": v for k, v in c.items()}

"""E0 - repository model.

Parses every module under <root>/src/classy_blocks (optionally with an in-memory overlay, used
by the self-test harness to analyse mutated variants without touching the disk) and provides

  * modules, classes (with C3 MRO over repo classes), functions/methods/properties,
  * import / alias resolution (``from x import y as z``, ``Loft = Operation``),
  * a light-weight static type inference for attribute / parameter / local receivers,
  * a class-hierarchy call graph with resolved callees.

Nothing from the analysed repository is imported or executed.
"""

from __future__ import annotations

import ast
import hashlib
import os
from dataclasses import dataclass, field
from typing import Dict, Iterable, Iterator, List, Optional, Sequence, Set, Tuple, Union

PKG = "classy_blocks"


class AnalysisError(Exception):
    """The analyser cannot recognise the code any more (anchor vanished, table not evaluable...).
    Reported as ANALYSIS-ERROR / exit 2 - never a silent pass, never a VIOLATION."""


# --------------------------------------------------------------------------------------------
# data classes


@dataclass
class Module:
    name: str  # dotted, e.g. classy_blocks.util.constants
    relpath: str  # src/classy_blocks/util/constants.py
    source: str
    tree: ast.Module
    imports: Dict[str, Tuple[str, ...]] = field(default_factory=dict)
    # local name -> ("module", modname) | ("object", modname, objname)
    aliases: Dict[str, ast.expr] = field(default_factory=dict)  # NAME = <Name/Attribute> at module level
    assigns: Dict[str, ast.expr] = field(default_factory=dict)  # module-level NAME = value (last wins)
    annotations: Dict[str, ast.expr] = field(default_factory=dict)

    def __hash__(self):
        return hash(self.name)

    def __eq__(self, other):
        return isinstance(other, Module) and other.name == self.name


@dataclass
class FuncInfo:
    name: str
    qualname: str  # e.g. mesh.Mesh.write (module path relative to package + class + name)
    node: Union[ast.FunctionDef, ast.AsyncFunctionDef]
    module: Module
    cls: Optional["ClassInfo"] = None
    is_property: bool = False
    is_classmethod: bool = False
    is_staticmethod: bool = False
    is_abstract: bool = False
    is_setter: bool = False

    def __hash__(self):
        return hash(self.qualname)

    def __eq__(self, other):
        return isinstance(other, FuncInfo) and other.qualname == self.qualname

    def __repr__(self):
        return f"<func {self.qualname}>"

    @property
    def params(self) -> List[str]:
        a = self.node.args
        return [x.arg for x in [*a.posonlyargs, *a.args]]

    @property
    def loc(self) -> str:
        return f"{self.module.relpath}:{self.node.lineno}"


@dataclass
class ClassInfo:
    name: str
    qualname: str  # module path relative to package + class name
    node: ast.ClassDef
    module: Module
    bases: List["ClassInfo"] = field(default_factory=list)
    base_exprs: List[ast.expr] = field(default_factory=list)
    methods: Dict[str, FuncInfo] = field(default_factory=dict)
    setters: Dict[str, FuncInfo] = field(default_factory=dict)
    class_vars: Dict[str, ast.expr] = field(default_factory=dict)
    class_annotations: Dict[str, ast.expr] = field(default_factory=dict)
    is_dataclass: bool = False

    def __hash__(self):
        return hash(self.qualname)

    def __eq__(self, other):
        return isinstance(other, ClassInfo) and other.qualname == self.qualname

    def __repr__(self):
        return f"<class {self.qualname}>"

    @property
    def loc(self) -> str:
        return f"{self.module.relpath}:{self.node.lineno}"


# static types ---------------------------------------------------------------------------------
# ("cls", ClassInfo) | ("list", T) | ("set", T) | ("dict", K, V) | ("tuple", T...) | ("opt", T)
# | ("type", ClassInfo) | ("prim", "int"|"str"|...) | None (= unknown)
SType = Optional[tuple]


def st_cls(t: SType) -> Optional[ClassInfo]:
    while t is not None and t[0] == "opt":
        t = t[1]
    if t is not None and t[0] == "cls":
        return t[1]
    return None


def st_elem(t: SType) -> SType:
    while t is not None and t[0] == "opt":
        t = t[1]
    if t is None:
        return None
    if t[0] in ("list", "set", "iter"):
        return t[1]
    if t[0] == "tuple" and len(t) > 1:
        return t[1]
    if t[0] == "dict":
        return t[1]
    return None


def st_repr(t: SType) -> str:
    if t is None:
        return "?"
    if t[0] == "cls":
        return t[1].name
    if t[0] == "type":
        return f"Type[{t[1].name}]"
    if t[0] == "prim":
        return t[1]
    return f"{t[0]}[{', '.join(st_repr(x) for x in t[1:])}]"


@dataclass
class CallSite:
    caller: FuncInfo
    node: ast.Call
    callees: Tuple[FuncInfo, ...]  # resolved repo callees (empty = unresolved or external)
    external: Optional[str] = None  # dotted name if recognised as builtin/external ("np.array", "len")

    @property
    def loc(self) -> str:
        return f"{self.caller.module.relpath}:{self.node.lineno}"


# --------------------------------------------------------------------------------------------


def _set_parents(tree: ast.AST) -> None:
    for node in ast.walk(tree):
        for child in ast.iter_child_nodes(node):
            child._parent = node  # type: ignore[attr-defined]
    tree._parent = None  # type: ignore[attr-defined]


def parent(node: ast.AST) -> Optional[ast.AST]:
    return getattr(node, "_parent", None)


def norm(node: ast.AST) -> str:
    """Normalised text of a statement/expression (formatter-independent key)."""
    if isinstance(node, (ast.If, ast.While)):
        return f"{type(node).__name__.lower()} {ast.unparse(node.test)}"
    if isinstance(node, ast.For):
        return f"for {ast.unparse(node.target)} in {ast.unparse(node.iter)}"
    if isinstance(node, ast.With):
        return "with " + ", ".join(ast.unparse(i) for i in node.items)
    if isinstance(node, ast.Try):
        return "try"
    if isinstance(node, (ast.FunctionDef, ast.ClassDef)):
        return f"def {node.name}"
    return ast.unparse(node)


BUILTIN_NAMES = set(dir(__builtins__)) if not isinstance(__builtins__, dict) else set(__builtins__)


class Repo:
    """Parsed model of the repository (or of a mutated in-memory variant of it)."""

    def __init__(self, root: str = "/repo", overlay: Optional[Dict[str, str]] = None):
        self.root = root
        self.overlay = dict(overlay or {})
        self.src_root = os.path.join(root, "src")
        self.pkg_root = os.path.join(self.src_root, PKG)
        self.modules: Dict[str, Module] = {}
        self.classes: Dict[str, ClassInfo] = {}
        self.functions: Dict[str, FuncInfo] = {}
        self._by_short: Dict[str, List[ClassInfo]] = {}
        self._mro_cache: Dict[str, List[ClassInfo]] = {}
        self._attr_types: Dict[Tuple[str, str], SType] = {}
        self._attr_types_done = False
        self._callsites: Optional[Dict[str, List[CallSite]]] = None
        self._sub_cache: Dict[str, List[ClassInfo]] = {}
        self.parse_errors: List[str] = []
        self._load()

    # ------------------------------------------------------------------ loading
    def _iter_files(self) -> Iterator[Tuple[str, str]]:
        if not os.path.isdir(self.pkg_root):
            raise AnalysisError(f"package directory not found: {self.pkg_root}")
        for dirpath, dirnames, filenames in os.walk(self.pkg_root):
            dirnames[:] = sorted(d for d in dirnames if d != "__pycache__")
            for fn in sorted(filenames):
                if fn.endswith(".py"):
                    full = os.path.join(dirpath, fn)
                    yield full, os.path.relpath(full, self.root)
        # overlay may add files
        for rel in self.overlay:
            full = os.path.join(self.root, rel)
            if not os.path.exists(full) and rel.endswith(".py") and rel.startswith(f"src/{PKG}/"):
                yield full, rel

    def _load(self) -> None:
        for full, rel in self._iter_files():
            if rel in self.overlay:
                source = self.overlay[rel]
            else:
                with open(full, encoding="utf-8") as fh:
                    source = fh.read()
            modname = rel[len("src/") : -3].replace(os.sep, ".")
            if modname.endswith(".__init__"):
                modname = modname[: -len(".__init__")]
            try:
                tree = ast.parse(source, filename=rel)
            except SyntaxError as err:
                raise AnalysisError(f"cannot parse {rel}: {err}") from err
            _set_parents(tree)
            self.modules[modname] = Module(modname, rel, source, tree)
        for mod in self.modules.values():
            self._index_module(mod)
        for cls in self.classes.values():
            self._resolve_bases(cls)

    def digest(self) -> str:
        h = hashlib.sha256()
        for name in sorted(self.modules):
            h.update(name.encode())
            h.update(self.modules[name].source.encode())
        return h.hexdigest()

    @staticmethod
    def _short(modname: str) -> str:
        return modname[len(PKG) + 1 :] if modname.startswith(PKG + ".") else modname

    def _index_module(self, mod: Module) -> None:
        pkg_parts = mod.name.split(".")
        is_pkg = mod.relpath.endswith("__init__.py")
        for node in mod.tree.body:
            if isinstance(node, ast.Import):
                for a in node.names:
                    local = a.asname or a.name.split(".")[0]
                    target = a.name if a.asname else a.name.split(".")[0]
                    mod.imports[local] = ("module", target)
            elif isinstance(node, ast.ImportFrom):
                base = node.module or ""
                if node.level:
                    anchor = pkg_parts if is_pkg else pkg_parts[:-1]
                    anchor = anchor[: len(anchor) - (node.level - 1)]
                    base = ".".join([*anchor, base] if base else anchor)
                for a in node.names:
                    local = a.asname or a.name
                    mod.imports[local] = ("object", base, a.name)
            elif isinstance(node, ast.ClassDef):
                self._index_class(mod, node)
            elif isinstance(node, (ast.FunctionDef, ast.AsyncFunctionDef)):
                q = f"{self._short(mod.name)}.{node.name}"
                self.functions[q] = FuncInfo(node.name, q, node, mod)
            elif isinstance(node, ast.Assign):
                for tgt in node.targets:
                    if isinstance(tgt, ast.Name):
                        mod.assigns[tgt.id] = node.value
                        if isinstance(node.value, (ast.Name, ast.Attribute)):
                            mod.aliases[tgt.id] = node.value
            elif isinstance(node, ast.AnnAssign) and isinstance(node.target, ast.Name):
                mod.annotations[node.target.id] = node.annotation
                if node.value is not None:
                    mod.assigns[node.target.id] = node.value

    def _index_class(self, mod: Module, node: ast.ClassDef) -> None:
        q = f"{self._short(mod.name)}.{node.name}"
        cls = ClassInfo(node.name, q, node, mod, base_exprs=list(node.bases))
        for dec in node.decorator_list:
            if "dataclass" in ast.unparse(dec):
                cls.is_dataclass = True
        for item in node.body:
            if isinstance(item, (ast.FunctionDef, ast.AsyncFunctionDef)):
                decs = [ast.unparse(d) for d in item.decorator_list]
                fi = FuncInfo(
                    item.name,
                    f"{q}.{item.name}",
                    item,
                    mod,
                    cls,
                    is_property=any(d in ("property", "functools.cached_property", "cached_property") for d in decs),
                    is_classmethod="classmethod" in decs,
                    is_staticmethod="staticmethod" in decs,
                    is_abstract=any("abstractmethod" in d for d in decs),
                    is_setter=any(d.endswith(".setter") for d in decs),
                )
                if fi.is_setter:
                    fi.qualname += ".setter"
                    cls.setters[item.name] = fi
                else:
                    cls.methods[item.name] = fi
                self.functions[fi.qualname] = fi
            elif isinstance(item, ast.Assign):
                for tgt in item.targets:
                    if isinstance(tgt, ast.Name):
                        cls.class_vars[tgt.id] = item.value
            elif isinstance(item, ast.AnnAssign) and isinstance(item.target, ast.Name):
                cls.class_annotations[item.target.id] = item.annotation
                if item.value is not None:
                    cls.class_vars[item.target.id] = item.value
        self.classes[q] = cls
        self._by_short.setdefault(node.name, []).append(cls)

    def _resolve_bases(self, cls: ClassInfo) -> None:
        for expr in cls.base_exprs:
            if isinstance(expr, ast.Subscript):  # Generic[T], Frame[X], LoftedShape[T]
                expr = expr.value
            obj = self.resolve_expr(cls.module, expr)
            if isinstance(obj, ClassInfo):
                cls.bases.append(obj)

    # ------------------------------------------------------------------ name resolution
    def resolve_name(self, mod: Module, name: str, _depth: int = 0):
        """Resolves a module-level name to ClassInfo | FuncInfo | Module | ("const", expr, module) | None."""
        if _depth > 12:
            return None
        short = self._short(mod.name)
        q = f"{short}.{name}" if short != PKG else name
        if q in self.classes:
            return self.classes[q]
        if q in self.functions and self.functions[q].cls is None:
            return self.functions[q]
        if name in mod.aliases:
            return self.resolve_expr(mod, mod.aliases[name], _depth + 1)
        if name in mod.imports:
            imp = mod.imports[name]
            if imp[0] == "module":
                return self.modules.get(imp[1]) or ("extmodule", imp[1])
            _, base, obj = imp
            sub = f"{base}.{obj}"
            if sub in self.modules:
                return self.modules[sub]
            if base in self.modules:
                return self.resolve_name(self.modules[base], obj, _depth + 1)
            return ("external", f"{base}.{obj}")
        if name in mod.assigns:
            return ("const", mod.assigns[name], mod)
        return None

    def resolve_expr(self, mod: Module, expr: ast.expr, _depth: int = 0):
        if isinstance(expr, ast.Name):
            return self.resolve_name(mod, expr.id, _depth)
        if isinstance(expr, ast.Attribute):
            base = self.resolve_expr(mod, expr.value, _depth)
            if isinstance(base, Module):
                return self.resolve_name(base, expr.attr, _depth + 1)
            if isinstance(base, tuple) and base[0] in ("extmodule", "external"):
                return ("external", f"{base[1]}.{expr.attr}")
            if isinstance(base, ClassInfo):
                m = self.find_method(base, expr.attr)
                if m is not None:
                    return m
                v = self.class_var(base, expr.attr)
                if v is not None:
                    return ("const", v[0], v[1].module)
            return None
        if isinstance(expr, ast.Subscript):
            return self.resolve_expr(mod, expr.value, _depth)
        if isinstance(expr, ast.Constant) and isinstance(expr.value, str):
            try:
                return self.resolve_expr(mod, ast.parse(expr.value, mode="eval").body, _depth)
            except SyntaxError:
                return None
        return None

    # ------------------------------------------------------------------ lookup helpers
    def module(self, short: str) -> Module:
        name = f"{PKG}.{short}" if short else PKG
        if name not in self.modules:
            raise AnalysisError(f"anchor module vanished: {name}")
        return self.modules[name]

    def cls(self, name: str) -> ClassInfo:
        """Class by qualified ('items.block.Block') or unique short name."""
        if name in self.classes:
            return self.classes[name]
        cands = self._by_short.get(name, [])
        if len(cands) == 1:
            return cands[0]
        if not cands:
            raise AnalysisError(f"anchor class vanished: {name}")
        raise AnalysisError(f"ambiguous class name {name}: {[c.qualname for c in cands]}")

    def has_cls(self, name: str) -> bool:
        return name in self.classes or len(self._by_short.get(name, [])) == 1

    def func(self, qualname: str) -> FuncInfo:
        """Function by qualname relative to the package ('mesh.Mesh.write', 'util.functions.mirror')
        or 'Class.method' with a unique class short name; methods are resolved through the MRO."""
        if qualname in self.functions:
            return self.functions[qualname]
        parts = qualname.split(".")
        if len(parts) >= 2:
            cname = ".".join(parts[:-1])
            if cname in self.classes or parts[-2] in self._by_short:
                try:
                    cls = self.cls(cname) if cname in self.classes else self.cls(parts[-2])
                except AnalysisError:
                    cls = None
                if cls is not None:
                    m = self.find_method(cls, parts[-1])
                    if m is not None:
                        return m
        raise AnalysisError(f"anchor function vanished: {qualname}")

    def has_func(self, qualname: str) -> bool:
        try:
            self.func(qualname)
            return True
        except AnalysisError:
            return False

    def own_method(self, cls: Union[str, ClassInfo], name: str) -> Optional[FuncInfo]:
        c = self.cls(cls) if isinstance(cls, str) else cls
        return c.methods.get(name)

    def mro(self, cls: ClassInfo) -> List[ClassInfo]:
        if cls.qualname in self._mro_cache:
            return self._mro_cache[cls.qualname]

        def merge(seqs: List[List[ClassInfo]]) -> List[ClassInfo]:
            res: List[ClassInfo] = []
            seqs = [list(s) for s in seqs if s]
            while seqs:
                for s in seqs:
                    head = s[0]
                    if not any(head in t[1:] for t in seqs):
                        break
                else:
                    raise AnalysisError(f"inconsistent MRO for {cls.qualname}")
                res.append(head)
                seqs = [[x for x in t if x != head] for t in seqs]
                seqs = [t for t in seqs if t]
            return res

        self._mro_cache[cls.qualname] = [cls]  # recursion guard
        out = [cls, *merge([*[self.mro(b) for b in cls.bases], list(cls.bases)])]
        self._mro_cache[cls.qualname] = out
        return out

    def find_method(self, cls: ClassInfo, name: str) -> Optional[FuncInfo]:
        for c in self.mro(cls):
            if name in c.methods:
                return c.methods[name]
        return None

    def class_var(self, cls: ClassInfo, name: str) -> Optional[Tuple[ast.expr, ClassInfo]]:
        for c in self.mro(cls):
            if name in c.class_vars:
                return c.class_vars[name], c
        return None

    def subclasses(self, cls: ClassInfo, strict: bool = True) -> List[ClassInfo]:
        key = cls.qualname
        if key not in self._sub_cache:
            self._sub_cache[key] = [
                c for c in self.classes.values() if c != cls and cls in self.mro(c)
            ]
        subs = self._sub_cache[key]
        return list(subs) if strict else [cls, *subs]

    def is_subclass(self, cls: ClassInfo, base: ClassInfo) -> bool:
        return base in self.mro(cls)

    def all_functions(self) -> List[FuncInfo]:
        return list(self.functions.values())

    def nested_functions(self, fn: FuncInfo) -> List[ast.FunctionDef]:
        return [n for n in ast.walk(fn.node) if isinstance(n, (ast.FunctionDef, ast.Lambda)) and n is not fn.node]

    # ------------------------------------------------------------------ static types
    def parse_annotation(self, mod: Module, ann: Optional[ast.expr]) -> SType:
        if ann is None:
            return None
        if isinstance(ann, ast.Constant) and isinstance(ann.value, str):
            try:
                return self.parse_annotation(mod, ast.parse(ann.value, mode="eval").body)
            except SyntaxError:
                return None
        if isinstance(ann, ast.Subscript):
            head = ast.unparse(ann.value).split(".")[-1]
            args = ann.slice.elts if isinstance(ann.slice, ast.Tuple) else [ann.slice]
            if head in ("List", "list", "Sequence", "Iterable", "Collection"):
                return ("list", self.parse_annotation(mod, args[0]))
            if head in ("Set", "set", "FrozenSet", "frozenset"):
                return ("set", self.parse_annotation(mod, args[0]))
            if head in ("Dict", "dict", "OrderedDict", "Mapping"):
                return ("dict", self.parse_annotation(mod, args[0]), self.parse_annotation(mod, args[-1]))
            if head in ("Tuple", "tuple"):
                return ("tuple", *[self.parse_annotation(mod, a) for a in args])
            if head == "Optional":
                return ("opt", self.parse_annotation(mod, args[0]))
            if head in ("Type", "type"):
                c = st_cls(self.parse_annotation(mod, args[0]))
                return ("type", c) if c else None
            if head in ("ClassVar", "Final"):
                return self.parse_annotation(mod, args[0])
            if head == "Union":
                ts = [self.parse_annotation(mod, a) for a in args]
                ts = [t for t in ts if t is not None]
                return ts[0] if len(ts) == 1 else None
            # Frame[Wire], LoftedShape[T]: generic repo class
            base = self.resolve_expr(mod, ann.value)
            if isinstance(base, ClassInfo):
                inner = self.parse_annotation(mod, args[0])
                return ("cls", base, inner) if inner else ("cls", base)
            return None
        obj = self.resolve_expr(mod, ann)
        if isinstance(obj, ClassInfo):
            return ("cls", obj)
        if isinstance(ann, ast.Name):
            if ann.id in ("int", "float", "str", "bool"):
                return ("prim", ann.id)
            if ann.id in ("set", "Set", "frozenset"):
                return ("set", None)
            if ann.id in ("list", "List"):
                return ("list", None)
            # TypeVar bound
            tv = mod.assigns.get(ann.id)
            if isinstance(tv, ast.Call) and ast.unparse(tv.func).endswith("TypeVar"):
                for kw in tv.keywords:
                    if kw.arg == "bound":
                        return self.parse_annotation(mod, kw.value)
        if isinstance(obj, tuple) and obj[0] == "const":
            # a type alias such as AdditiveType = Union[...]
            return self.parse_annotation(obj[2], obj[1]) if isinstance(obj[1], (ast.Subscript, ast.Name)) else None
        return None

    def _collect_attr_types(self) -> None:
        if self._attr_types_done:
            return
        self._attr_types_done = True
        for cls in self.classes.values():
            for name, ann in cls.class_annotations.items():
                t = self.parse_annotation(cls.module, ann)
                if t is not None:
                    self._attr_types[(cls.qualname, name)] = t
            for fi in cls.methods.values():
                if fi.is_property and fi.node.returns is not None:
                    t = self.parse_annotation(cls.module, fi.node.returns)
                    if t is not None:
                        self._attr_types.setdefault((cls.qualname, fi.name), t)
        # self.x: T = ... / self.x = Ctor(...) / self.x = param (annotated)
        for cls in self.classes.values():
            for fi in cls.methods.values():
                if fi.is_staticmethod or fi.is_classmethod or not fi.params:
                    continue
                selfname = fi.params[0]
                env = None
                for node in ast.walk(fi.node):
                    tgt = None
                    val = None
                    ann = None
                    if isinstance(node, ast.AnnAssign):
                        tgt, val, ann = node.target, node.value, node.annotation
                    elif isinstance(node, ast.Assign) and len(node.targets) == 1:
                        tgt, val = node.targets[0], node.value
                    if not (
                        isinstance(tgt, ast.Attribute)
                        and isinstance(tgt.value, ast.Name)
                        and tgt.value.id == selfname
                    ):
                        continue
                    key = (cls.qualname, tgt.attr)
                    if ann is not None:
                        t = self.parse_annotation(cls.module, ann)
                        if t is not None:
                            self._attr_types[key] = t
                            continue
                    if key in self._attr_types or val is None:
                        continue
                    if env is None:
                        env = TypeEnv(self, fi)
                    t = env.type_of(val)
                    if t is not None:
                        self._attr_types[key] = t

    def attr_type(self, cls: ClassInfo, name: str) -> SType:
        self._collect_attr_types()
        for c in self.mro(cls):
            t = self._attr_types.get((c.qualname, name))
            if t is not None:
                return t
        # attribute declared only on subclasses (abstract base used polymorphically)
        for c in self.subclasses(cls):
            t = self._attr_types.get((c.qualname, name))
            if t is not None:
                return t
        return None

    # ------------------------------------------------------------------ call graph
    def callsites(self, fn: FuncInfo) -> List[CallSite]:
        if self._callsites is None:
            self._callsites = {}
        if fn.qualname not in self._callsites:
            env = TypeEnv(self, fn)
            sites = []
            for node in ast.walk(fn.node):
                if isinstance(node, ast.Call):
                    callees, ext = env.resolve_call(node)
                    sites.append(CallSite(fn, node, tuple(callees), ext))
            # property reads count as calls too (self.is_defined, block.description ...)
            for node in ast.walk(fn.node):
                if isinstance(node, ast.Attribute) and isinstance(node.ctx, ast.Load):
                    par = parent(node)
                    if isinstance(par, ast.Call) and par.func is node:
                        continue
                    props = env.resolve_property(node)
                    if props:
                        fake = ast.Call(func=node, args=[], keywords=[])
                        ast.copy_location(fake, node)
                        fake._property_read = True  # type: ignore[attr-defined]
                        sites.append(CallSite(fn, fake, tuple(props), None))
            self._callsites[fn.qualname] = sites
        return self._callsites[fn.qualname]

    def callees(self, fn: FuncInfo) -> Set[FuncInfo]:
        out: Set[FuncInfo] = set()
        for cs in self.callsites(fn):
            out.update(cs.callees)
        return out

    def reachable(self, roots: Iterable[FuncInfo], stop: Optional[Set[str]] = None) -> Set[FuncInfo]:
        seen: Set[FuncInfo] = set()
        work = list(roots)
        while work:
            fn = work.pop()
            if fn in seen:
                continue
            seen.add(fn)
            if stop and fn.qualname in stop:
                continue
            work.extend(self.callees(fn) - seen)
        return seen

    def reaches(self, fn: FuncInfo, target: FuncInfo) -> bool:
        return target in self.reachable([fn])

    def callers_of(self, target: FuncInfo) -> List[CallSite]:
        out = []
        for fn in self.all_functions():
            for cs in self.callsites(fn):
                if target in cs.callees:
                    out.append(cs)
        return out

    def call_stats(self) -> Dict[str, int]:
        total = resolved = external = 0
        for fn in self.all_functions():
            for cs in self.callsites(fn):
                if getattr(cs.node, "_property_read", False):
                    continue
                total += 1
                if cs.callees:
                    resolved += 1
                elif cs.external:
                    external += 1
        return {"calls": total, "resolved_repo": resolved, "external": external, "unresolved": total - resolved - external}

    def stats(self) -> Dict[str, int]:
        return {
            "modules": len(self.modules),
            "classes": len(self.classes),
            "functions": len(self.functions),
            "loc": sum(m.source.count("\n") for m in self.modules.values()),
        }


# --------------------------------------------------------------------------------------------


class TypeEnv:
    """Flow-insensitive local type environment of one function (parameters, annotated / constructed
    locals, loop variables over typed containers)."""

    def __init__(self, repo: Repo, fn: FuncInfo):
        self.repo = repo
        self.fn = fn
        self.mod = fn.module
        self.locals: Dict[str, SType] = {}
        self._build()

    def _build(self) -> None:
        fn, repo = self.fn, self.repo
        args = fn.node.args
        allargs = [*args.posonlyargs, *args.args, *args.kwonlyargs]
        for i, a in enumerate(allargs):
            t = repo.parse_annotation(self.mod, a.annotation)
            if i == 0 and fn.cls is not None and not fn.is_staticmethod:
                t = ("type", fn.cls) if fn.is_classmethod else ("cls", fn.cls)
            if t is not None:
                self.locals[a.arg] = t
        # two passes so that later definitions can feed earlier uses in loops
        for _ in range(2):
            for node in ast.walk(fn.node):
                if isinstance(node, ast.AnnAssign) and isinstance(node.target, ast.Name):
                    t = repo.parse_annotation(self.mod, node.annotation)
                    if t is not None:
                        self.locals[node.target.id] = t
                elif isinstance(node, ast.Assign):
                    for tgt in node.targets:
                        if isinstance(tgt, ast.Name) and tgt.id not in self.locals:
                            t = self.type_of(node.value)
                            if t is not None:
                                self.locals[tgt.id] = t
                        elif isinstance(tgt, ast.Tuple) and isinstance(node.value, ast.Tuple):
                            for a, b in zip(tgt.elts, node.value.elts):
                                if isinstance(a, ast.Name) and a.id not in self.locals:
                                    t = self.type_of(b)
                                    if t is not None:
                                        self.locals[a.id] = t
                elif isinstance(node, (ast.For, ast.comprehension)):
                    self._bind_loop(node.target, node.iter)
                elif isinstance(node, ast.With):
                    pass

    def _bind_loop(self, target: ast.expr, it: ast.expr) -> None:
        t_iter = self.type_of(it)
        # enumerate(x) / zip / reversed / sorted / list
        if isinstance(it, ast.Call) and isinstance(it.func, ast.Name):
            fname = it.func.id
            if fname == "enumerate" and it.args and isinstance(target, ast.Tuple) and len(target.elts) == 2:
                self.locals.setdefault(target.elts[0].id, ("prim", "int")) if isinstance(
                    target.elts[0], ast.Name
                ) else None
                self._bind_target(target.elts[1], st_elem(self.type_of(it.args[0])))
                return
            if fname in ("reversed", "sorted", "list", "tuple", "set", "iter") and it.args:
                self._bind_target(target, st_elem(self.type_of(it.args[0])))
                return
            if fname == "zip" and isinstance(target, ast.Tuple):
                for t, a in zip(target.elts, it.args):
                    self._bind_target(t, st_elem(self.type_of(a)))
                return
        if isinstance(it, ast.Call) and isinstance(it.func, ast.Attribute) and it.func.attr in ("items", "values", "keys"):
            td = self.type_of(it.func.value)
            while td is not None and td[0] == "opt":
                td = td[1]
            if td is not None and td[0] == "dict":
                if it.func.attr == "items" and isinstance(target, ast.Tuple) and len(target.elts) == 2:
                    self._bind_target(target.elts[0], td[1])
                    self._bind_target(target.elts[1], td[2])
                elif it.func.attr == "values":
                    self._bind_target(target, td[2])
                elif it.func.attr == "keys":
                    self._bind_target(target, td[1])
            return
        elem = st_elem(t_iter)
        if elem is None and st_cls(t_iter) is not None:
            # iteration over a repo class that defines __getitem__/__iter__ (WireManagerBase)
            gi = self.repo.find_method(st_cls(t_iter), "__getitem__")
            if gi is not None:
                elem = self.repo.parse_annotation(gi.module, gi.node.returns)
        self._bind_target(target, elem)

    def _bind_target(self, target: ast.expr, t: SType) -> None:
        if t is None:
            return
        if isinstance(target, ast.Name):
            self.locals.setdefault(target.id, t)

    # -- expression typing
    def type_of(self, expr: ast.expr, _d: int = 0) -> SType:
        repo = self.repo
        if _d > 8:
            return None
        if isinstance(expr, ast.Name):
            if expr.id in self.locals:
                return self.locals[expr.id]
            obj = repo.resolve_name(self.mod, expr.id)
            if isinstance(obj, ClassInfo):
                return ("type", obj)
            if isinstance(obj, tuple) and obj[0] == "const":
                ann = obj[2].annotations.get(expr.id)
                if ann is not None:
                    return repo.parse_annotation(obj[2], ann)
                sub = TypeEnv.__new__(TypeEnv)
                sub.repo, sub.fn, sub.mod, sub.locals = repo, self.fn, obj[2], {}
                return sub.type_of(obj[1], _d + 1)
            return None
        if isinstance(expr, ast.Attribute):
            base_t = self.type_of(expr.value, _d + 1)
            bc = st_cls(base_t)
            if bc is not None:
                t = repo.attr_type(bc, expr.attr)
                if t is not None:
                    return t
                m = repo.find_method(bc, expr.attr)
                if m is not None and m.is_property:
                    return repo.parse_annotation(m.module, m.node.returns)
                # generic Frame[T].beams etc. left unknown
                return None
            if base_t is not None and base_t[0] == "type":
                v = repo.class_var(base_t[1], expr.attr)
                if v is not None:
                    ann = None
                    for c in repo.mro(base_t[1]):
                        if expr.attr in c.class_annotations:
                            ann = repo.parse_annotation(c.module, c.class_annotations[expr.attr])
                            break
                    return ann
            obj = repo.resolve_expr(self.mod, expr)
            if isinstance(obj, ClassInfo):
                return ("type", obj)
            return None
        if isinstance(expr, ast.Call):
            f = expr.func
            # constructor / classmethod constructor
            ft = self.type_of(f, _d + 1) if isinstance(f, (ast.Name, ast.Attribute, ast.Subscript)) else None
            if ft is not None and ft[0] == "type":
                return ("cls", ft[1])
            if isinstance(f, ast.Name):
                if f.id in ("list", "sorted", "reversed", "tuple") and expr.args:
                    e = st_elem(self.type_of(expr.args[0], _d + 1))
                    return ("list", e) if e else None
                if f.id in ("set", "frozenset"):
                    e = st_elem(self.type_of(expr.args[0], _d + 1)) if expr.args else None
                    return ("set", e)
                if f.id == "range":
                    return ("list", ("prim", "int"))
                if f.id == "super":
                    if self.fn.cls is not None:
                        mro = repo.mro(self.fn.cls)
                        return ("super", self.fn.cls) if len(mro) > 1 else None
                if f.id in ("len", "int"):
                    return ("prim", "int")
                if f.id in ("str",):
                    return ("prim", "str")
            if isinstance(f, ast.Attribute) and f.attr in ("intersection", "union", "difference", "symmetric_difference", "copy"):
                bt0 = self.type_of(f.value, _d + 1)
                if bt0 is not None and bt0[0] == "set":
                    return bt0
            callees, _ = self.resolve_call(expr, _d + 1)
            for c in callees:
                if c.name == "__init__" and c.cls is not None:
                    return ("cls", c.cls)
                if c.is_classmethod and c.cls is not None and c.node.returns is not None:
                    # "-> 'Cylinder'" on a classmethod: the receiver class
                    rt = repo.parse_annotation(c.module, c.node.returns)
                    recv = self.type_of(f.value, _d + 1) if isinstance(f, ast.Attribute) else None
                    if recv is not None and recv[0] == "type" and st_cls(rt) and repo.is_subclass(recv[1], st_cls(rt)):
                        return ("cls", recv[1])
                    return rt
                rt = repo.parse_annotation(c.module, c.node.returns)
                if rt is not None:
                    # methods returning ElementBaseT (= self): keep the receiver's class
                    if isinstance(f, ast.Attribute) and isinstance(c.node.returns, (ast.Name, ast.Constant)):
                        recv = self.type_of(f.value, _d + 1)
                        rc, cc = st_cls(recv), st_cls(rt)
                        if rc is not None and cc is not None and repo.is_subclass(rc, cc):
                            return ("cls", rc)
                    return rt
                if isinstance(f, ast.Attribute) and c.name in ("copy", "translate", "rotate", "scale", "mirror", "transform", "shift", "invert", "reorient"):
                    return self.type_of(f.value, _d + 1)
            return None
        if isinstance(expr, ast.Subscript):
            bt = self.type_of(expr.value, _d + 1)
            while bt is not None and bt[0] == "opt":
                bt = bt[1]
            if bt is None:
                return None
            if isinstance(expr.slice, ast.Slice):
                return bt if bt[0] == "list" else None
            if bt[0] == "list":
                return bt[1]
            if bt[0] == "dict":
                return bt[2]
            if bt[0] == "tuple" and len(bt) > 1:
                if isinstance(expr.slice, ast.Constant) and isinstance(expr.slice.value, int) and expr.slice.value < len(bt) - 1:
                    return bt[1 + expr.slice.value]
                return bt[1]
            if bt[0] == "cls":
                # class with __getitem__
                gi = repo.find_method(bt[1], "__getitem__")
                if gi is not None:
                    rt = repo.parse_annotation(gi.module, gi.node.returns)
                    if rt is not None:
                        return rt
                    if len(bt) > 2 and bt[1].name == "Frame":
                        return ("dict", ("prim", "int"), bt[2])
            return None
        if isinstance(expr, (ast.List, ast.Tuple)):
            ts = [self.type_of(e, _d + 1) for e in expr.elts if not isinstance(e, ast.Starred)]
            ts = [t for t in ts if t is not None]
            if ts and all(t == ts[0] for t in ts):
                return ("list", ts[0])
            starred = [e for e in expr.elts if isinstance(e, ast.Starred)]
            for s in starred:
                e = st_elem(self.type_of(s.value, _d + 1))
                if e is not None:
                    return ("list", e)
            if ts:
                return ("list", ts[0])
            return None
        if isinstance(expr, ast.ListComp):
            sub = self._comp_env(expr)
            t = sub.type_of(expr.elt, _d + 1)
            return ("list", t) if t else None
        if isinstance(expr, ast.SetComp):
            sub = self._comp_env(expr)
            t = sub.type_of(expr.elt, _d + 1)
            return ("set", t)
        if isinstance(expr, ast.Set):
            ts = [self.type_of(e, _d + 1) for e in expr.elts]
            return ("set", ts[0] if ts and all(t == ts[0] for t in ts) else None)
        if isinstance(expr, ast.BinOp) and isinstance(expr.op, ast.Add):
            lt = self.type_of(expr.left, _d + 1)
            if lt is not None and lt[0] == "list":
                return lt
            rt = self.type_of(expr.right, _d + 1)
            if rt is not None and rt[0] == "list":
                return rt
            return None
        if isinstance(expr, ast.IfExp):
            return self.type_of(expr.body, _d + 1) or self.type_of(expr.orelse, _d + 1)
        if isinstance(expr, ast.Constant):
            if isinstance(expr.value, bool):
                return ("prim", "bool")
            if isinstance(expr.value, int):
                return ("prim", "int")
            if isinstance(expr.value, str):
                return ("prim", "str")
        return None

    def _comp_env(self, comp) -> "TypeEnv":
        for gen in comp.generators:
            self._bind_loop(gen.target, gen.iter)
        return self

    # -- calls
    def _methods_on(self, cls: ClassInfo, name: str, include_overrides: bool = True) -> List[FuncInfo]:
        repo = self.repo
        out: List[FuncInfo] = []
        m = repo.find_method(cls, name)
        if m is not None:
            out.append(m)
        if include_overrides:
            for sub in repo.subclasses(cls):
                if name in sub.methods and sub.methods[name] not in out:
                    out.append(sub.methods[name])
        return out

    def resolve_property(self, node: ast.Attribute) -> List[FuncInfo]:
        bt = self.type_of(node.value)
        if bt is not None and bt[0] == "super":
            mro = self.repo.mro(bt[1])[1:]
            for c in mro:
                if node.attr in c.methods:
                    return [c.methods[node.attr]] if c.methods[node.attr].is_property else []
            return []
        bc = st_cls(bt)
        if bc is None:
            return []
        return [m for m in self._methods_on(bc, node.attr) if m.is_property]

    def resolve_call(self, call: ast.Call, _d: int = 0) -> Tuple[List[FuncInfo], Optional[str]]:
        repo = self.repo
        f = call.func
        if isinstance(f, ast.Name):
            if f.id in self.locals:
                t = self.locals[f.id]
                if t is not None and t[0] == "type":
                    return self._ctor(t[1]), None
                return [], None
            # nested function defined in this function
            for n in ast.walk(self.fn.node):
                if isinstance(n, ast.FunctionDef) and n is not self.fn.node and n.name == f.id:
                    return [], f"<nested {f.id}>"
            obj = repo.resolve_name(self.mod, f.id)
            if isinstance(obj, ClassInfo):
                return self._ctor(obj), None
            if isinstance(obj, FuncInfo):
                return [obj], None
            if isinstance(obj, tuple) and obj[0] == "external":
                return [], obj[1]
            if f.id in BUILTIN_NAMES:
                return [], f.id
            return [], None
        if isinstance(f, ast.Attribute):
            # super().m(...)
            if isinstance(f.value, ast.Call) and isinstance(f.value.func, ast.Name) and f.value.func.id == "super":
                if self.fn.cls is not None:
                    mro = repo.mro(self.fn.cls)
                    start = 1
                    if len(f.value.args) == 2:
                        c0 = repo.resolve_expr(self.mod, f.value.args[0])
                        if isinstance(c0, ClassInfo) and c0 in mro:
                            start = mro.index(c0) + 1
                    for c in mro[start:]:
                        if f.attr in c.methods:
                            return [c.methods[f.attr]], None
                return [], "super." + f.attr
            bt = self.type_of(f.value, _d + 1)
            while bt is not None and bt[0] == "opt":
                bt = bt[1]
            if bt is not None and bt[0] == "cls":
                ms = [m for m in self._methods_on(bt[1], f.attr) if not m.is_property]
                if ms:
                    return ms, None
                # attribute holding a callable (e.g. self.function) - unknown
                return [], None
            if bt is not None and bt[0] == "type":
                m = repo.find_method(bt[1], f.attr)
                if m is not None:
                    ms = [m]
                    if m.is_classmethod:
                        for sub in repo.subclasses(bt[1]):
                            if f.attr in sub.methods:
                                ms.append(sub.methods[f.attr])
                    return ms, None
                return [], None
            if bt is not None and bt[0] in ("list", "set", "dict", "tuple", "prim"):
                return [], f"{bt[0]}.{f.attr}"
            obj = repo.resolve_expr(self.mod, f)
            if isinstance(obj, FuncInfo):
                return [obj], None
            if isinstance(obj, ClassInfo):
                return self._ctor(obj), None
            if isinstance(obj, tuple) and obj[0] == "external":
                return [], obj[1]
            base = repo.resolve_expr(self.mod, f.value) if isinstance(f.value, (ast.Name, ast.Attribute)) else None
            if isinstance(base, tuple) and base[0] in ("external", "extmodule"):
                return [], f"{base[1]}.{f.attr}"
            return [], None
        if isinstance(f, ast.Subscript):
            # Frame[Wire]()
            obj = repo.resolve_expr(self.mod, f.value)
            if isinstance(obj, ClassInfo):
                return self._ctor(obj), None
        return [], None

    def _ctor(self, cls: ClassInfo) -> List[FuncInfo]:
        out = []
        init = self.repo.find_method(cls, "__init__")
        if init is not None:
            out.append(init)
        post = self.repo.find_method(cls, "__post_init__")
        if post is not None:
            out.append(post)
        return out


# --------------------------------------------------------------------------------------------
# small AST helpers shared by the rules


def walk_shallow(node: ast.AST, skip_nested_defs: bool = True) -> Iterator[ast.AST]:
    """ast.walk that does not descend into nested function/class definitions or lambdas."""
    todo = list(ast.iter_child_nodes(node))
    while todo:
        n = todo.pop(0)
        yield n
        if skip_nested_defs and isinstance(n, (ast.FunctionDef, ast.AsyncFunctionDef, ast.ClassDef, ast.Lambda)):
            continue
        todo.extend(ast.iter_child_nodes(n))


def is_self_attr(node: ast.AST, attr: Optional[str] = None, selfname: str = "self") -> bool:
    return (
        isinstance(node, ast.Attribute)
        and isinstance(node.value, ast.Name)
        and node.value.id == selfname
        and (attr is None or node.attr == attr)
    )


def attr_chain(node: ast.AST) -> Optional[str]:
    """'self.grid.points' for nested Attribute/Name chains; None otherwise."""
    parts = []
    while isinstance(node, ast.Attribute):
        parts.append(node.attr)
        node = node.value
    if isinstance(node, ast.Name):
        parts.append(node.id)
        return ".".join(reversed(parts))
    return None


def call_name(call: ast.Call) -> Optional[str]:
    return attr_chain(call.func)


def enclosing_stmt(node: ast.AST) -> ast.stmt:
    while node is not None and not isinstance(node, ast.stmt):
        node = parent(node)
    return node  # type: ignore[return-value]


def enclosing_function(node: ast.AST) -> Optional[ast.FunctionDef]:
    node = parent(node)
    while node is not None and not isinstance(node, (ast.FunctionDef, ast.AsyncFunctionDef)):
        node = parent(node)
    return node  # type: ignore[return-value]


def names_in(node: ast.AST) -> Set[str]:
    return {n.id for n in ast.walk(node) if isinstance(n, ast.Name)}


def literal(node: ast.AST):
    try:
        return ast.literal_eval(node)
    except Exception as err:  # noqa: BLE001
        raise AnalysisError(f"not a literal: {ast.unparse(node)[:80]}") from err

"""Domain discipline of inverse trigonometric functions.

arccos / arcsin are defined on [-1, 1]. The cosine of an angle between two directions is computed as a dot product of
two normalised vectors (or a dot product divided by the two norms); mathematically that lies in [-1, 1], in floating
point it is 1.0000000000000002 for a good share of parallel (or -1.0000000000000002 for opposite) directions in general
position, and arccos returns NaN. Whether that can happen is visible in the shape of the expression:

    CLIPPED  - np.clip(x, -1, 1) / min(max(...)) on both sides                      -> safe
    DAMPED   - a vector divided by (its norm + a positive constant): strictly < 1    -> a dot with it is safe
    UNIT     - unit_vector(x), x / norm(x): unit up to rounding
    UNIT.UNIT, (a . b) / (|a| |b|)                                                   -> may leave [-1, 1]: reported
    anything else                                                                    -> not judged (counted in a note)

The abstract value of a name is the join over its assignments in the function; calls of methods of the repository are
followed into every implementation (join over overrides).
"""

from __future__ import annotations

import ast
from typing import Dict, List, Optional, Set, Tuple

from .model import FuncInfo, Repo, TypeEnv, attr_chain, walk_shallow
from .report import RuleRun

CLIPPED, DAMPED, UNIT, UNSAFE, SCALAR_NORM, DAMPED_NORM, UNKNOWN = "clipped", "damped", "unit", "unit.unit", "norm", "norm+eps", "?"
MISPLACED = "clipped-then-scaled"
ORDER = [CLIPPED, DAMPED, UNIT, UNSAFE]


def _last(name: Optional[str]) -> str:
    return (name or "").split(".")[-1]


class Bounds:
    def __init__(self, repo: Repo, fn: FuncInfo, depth: int = 0):
        self.repo, self.fn, self.depth = repo, fn, depth
        self.env = TypeEnv(repo, fn)
        self.assigns: Dict[str, List[ast.expr]] = {}
        for n in ast.walk(fn.node):
            if isinstance(n, ast.Assign):
                for t in n.targets:
                    if isinstance(t, ast.Name):
                        self.assigns.setdefault(t.id, []).append(n.value)
            elif isinstance(n, ast.AnnAssign) and n.value is not None and isinstance(n.target, ast.Name):
                self.assigns.setdefault(n.target.id, []).append(n.value)
            elif isinstance(n, ast.AugAssign) and isinstance(n.target, ast.Name):
                self.assigns.setdefault(n.target.id, []).append(ast.Constant(value=None))  # modified in place: unknown
        self._busy: Set = set()
        # straight-line re-assignment (x = b - a; x = x / norm(x)): when every assignment of a name is a statement of the function
        # body itself, a use sees the last one above it, not the join of all
        top = {}
        for st in fn.node.body:
            if isinstance(st, ast.Assign) and len(st.targets) == 1 and isinstance(st.targets[0], ast.Name):
                top.setdefault(st.targets[0].id, []).append((st.lineno, st.value))
        self.straight: Dict[str, List[Tuple[int, ast.expr]]] = {k: v for k, v in top.items() if len(v) == len(self.assigns.get(k, [])) and len(v) > 1}

    # ---------------------------------------------------------------------------------------
    def _is_pos_const(self, e: ast.expr) -> bool:
        if isinstance(e, ast.Constant) and isinstance(e.value, (int, float)) and not isinstance(e.value, bool):
            return e.value > 0
        if isinstance(e, (ast.Name, ast.Attribute)):
            from .tolerance import fold

            v = fold(self.repo, self.fn.module, e)
            return v is not None and v > 0
        return False

    def _is_const(self, e: ast.expr) -> bool:
        from .tolerance import fold

        return fold(self.repo, self.fn.module, e) is not None

    def _join(self, kinds: List[str]) -> str:
        kinds = [k for k in kinds]
        if not kinds or any(k == UNKNOWN for k in kinds):
            return UNKNOWN
        if all(k in ORDER for k in kinds):
            return max(kinds, key=ORDER.index)
        return kinds[0] if len(set(kinds)) == 1 else UNKNOWN

    def name(self, ident: str, at: Optional[int] = None) -> str:
        if at is not None and ident in self.straight:
            above = [v for ln, v in self.straight[ident] if ln < at]
            if not above or (ident, at) in self._busy:
                return UNKNOWN
            self._busy.add((ident, at))
            try:
                return self.kind(above[-1])
            finally:
                self._busy.discard((ident, at))
        if ident in self._busy or ident not in self.assigns:
            return UNKNOWN
        self._busy.add(ident)
        try:
            return self._join([self.kind(v) for v in self.assigns[ident]])
        finally:
            self._busy.discard(ident)

    def kind(self, e: ast.expr) -> str:
        if isinstance(e, ast.Name):
            return self.name(e.id, getattr(e, "lineno", None))
        if isinstance(e, ast.Subscript):
            return self.kind(e.value)  # nnorms[:, np.newaxis] -> nnorms ; v[0] -> v
        if isinstance(e, (ast.List, ast.Tuple)) and e.elts:
            return self._join([self.kind(x) for x in e.elts])
        if isinstance(e, ast.UnaryOp) and isinstance(e.op, ast.USub):
            return self.kind(e.operand)
        if isinstance(e, ast.Call):
            nm = _last(attr_chain(e.func))
            if nm == "clip" and len(e.args) >= 3:
                from .tolerance import fold

                lo, hi = fold(self.repo, self.fn.module, e.args[1]), fold(self.repo, self.fn.module, e.args[2])
                if lo is not None and hi is not None and lo >= -1 and hi <= 1:
                    return CLIPPED
                return UNKNOWN
            if nm in ("min", "minimum", "max", "maximum") and len(e.args) == 2:
                # min(max(x, -1), 1) in either nesting order
                inner = [a for a in e.args if isinstance(a, ast.Call) and _last(attr_chain(a.func)) in ("min", "minimum", "max", "maximum")]
                if inner and _last(attr_chain(inner[0].func))[:3] != nm[:3]:
                    return CLIPPED
                # guarded on one side only: whatever the guarded value was, it can still leave the domain on the other side
                rest = [a for a in e.args if not self._is_const(a)]
                return self.kind(rest[0]) if len(rest) == 1 else UNKNOWN
            if nm == "unit_vector":
                return UNIT
            if nm in ("norm",):
                return SCALAR_NORM
            if nm in ("array", "asarray", "expand_dims", "squeeze", "copy", "roll", "take", "flip") and e.args:
                return self.kind(e.args[0])
            if nm == "dot":
                ops = list(e.args) if len(e.args) == 2 else ([e.func.value, e.args[0]] if isinstance(e.func, ast.Attribute) and len(e.args) == 1 else [])
                if len(ops) == 2:
                    return self._dot(self.kind(ops[0]), self.kind(ops[1]))
                return UNKNOWN
            if nm == "sum" and e.args and isinstance(e.args[0], ast.BinOp) and isinstance(e.args[0].op, ast.Mult):
                return self._dot(self.kind(e.args[0].left), self.kind(e.args[0].right))
            # a method / function of the repository: join over all implementations' return values
            if self.depth < 3:
                callees, _ = self.env.resolve_call(e)
                kinds = []
                for c in callees:
                    sub = Bounds(self.repo, c, self.depth + 1)
                    rets = [n.value for n in walk_shallow(c.node) if isinstance(n, ast.Return) and n.value is not None]
                    if not rets:
                        continue
                    kinds.append(sub._join([sub.kind(x) for x in rets]))
                if kinds:
                    return self._join(kinds)
            return UNKNOWN
        if isinstance(e, ast.BinOp):
            if isinstance(e.op, ast.Div):
                num, den = e.left, e.right
                dk = self._den(den)
                nk = self.kind(num)
                if nk == CLIPPED and not self._is_const(den):
                    return MISPLACED  # clipped first, scaled afterwards: the clip acted on the un-normalised value
                if dk == "norm-of" and self._same_vector(num, den):
                    return UNIT
                if dk == "damped-norm":
                    return DAMPED
                if dk == "norm":  # x / norm(<something>): unit if it is x's own norm, unknown otherwise
                    return UNIT if self._same_vector(num, den) else UNKNOWN
                if dk == "norms-product" and nk in (UNKNOWN, UNSAFE, UNIT) and self._is_dot(num):
                    return UNSAFE
                return UNKNOWN
            if isinstance(e.op, ast.Add) and (self._is_pos_const(e.right) or self._is_pos_const(e.left)):
                other = e.left if self._is_pos_const(e.right) else e.right
                if self.kind(other) == SCALAR_NORM:
                    return DAMPED_NORM
                return UNKNOWN
            if isinstance(e.op, ast.Mult):
                ks = [self.kind(e.left), self.kind(e.right)]
                if ks == [SCALAR_NORM, SCALAR_NORM]:
                    return "norms-product"
            return UNKNOWN
        return UNKNOWN

    def _dot(self, a: str, b: str) -> str:
        if DAMPED in (a, b) and {a, b} <= {DAMPED, UNIT}:
            return CLIPPED  # strictly inside (-1, 1)
        if a == UNIT and b == UNIT:
            return UNSAFE
        return UNKNOWN

    def _is_dot(self, e: ast.expr) -> bool:
        if isinstance(e, ast.Call) and _last(attr_chain(e.func)) == "dot":
            return True
        if isinstance(e, ast.Name):
            return any(self._is_dot(v) for v in self.assigns.get(e.id, []))
        return False

    def _den(self, e: ast.expr) -> str:
        k = self.kind(e)
        if k == SCALAR_NORM:
            return "norm"
        if k == DAMPED_NORM:
            return "damped-norm"
        if k == "norms-product":
            return "norms-product"
        return "?"

    def _norm_arg(self, e: ast.expr) -> Optional[str]:
        if isinstance(e, ast.Subscript):
            return self._norm_arg(e.value)
        if isinstance(e, ast.Call) and _last(attr_chain(e.func)) == "norm" and e.args:
            return ast.unparse(e.args[0])
        if isinstance(e, ast.Call) and _last(attr_chain(e.func)) in ("max", "maximum", "fmax") and len(e.args) == 2:
            # a floor under the norm (max(norm(x), tiny)): the norm itself for every non-degenerate x
            for a in e.args:
                got = self._norm_arg(a)
                if got is not None:
                    return got
        if isinstance(e, ast.Name):
            vs = self.assigns.get(e.id, [])
            if len(vs) == 1:
                return self._norm_arg(vs[0])
        return None

    def _same_vector(self, num: ast.expr, den: ast.expr) -> bool:
        arg = self._norm_arg(den)
        return arg is not None and arg == ast.unparse(num)


# exceptions confirmed by reading, one named function each
EXEMPT: Dict[str, str] = {
    # (QuadCell.get_inner_angles was listed here - 'a collinear corner is degenerate, Degenerate Cell is the documented outcome' -
    #  until the real code was seen to raise for a straight corner in 20 of 200 orientations and to return a value in the others)
}


def inverse_trig_rule(repo: Repo, prop: str, rule_id: str, module_prefixes: Tuple[str, ...], floor: int = 1) -> RuleRun:
    r = RuleRun(prop, rule_id, floor=floor, what="arccos/arcsin arguments cannot leave [-1, 1] by rounding: clipped, or a dot product with a damped (norm + eps) vector; never unit . unit or dot / (norm * norm) bare")
    unjudged = 0
    for fn in sorted(repo.all_functions(), key=lambda f: f.qualname):
        short = fn.module.name[len("classy_blocks.") :] if fn.module.name.startswith("classy_blocks.") else fn.module.name
        if not any(short.startswith(p) for p in module_prefixes):
            continue
        calls = [n for n in ast.walk(fn.node) if isinstance(n, ast.Call) and _last(attr_chain(n.func)) in ("arccos", "arcsin", "acos", "asin") and n.args]
        if not calls:
            continue
        b = Bounds(repo, fn)
        for i, c in enumerate(calls):
            k = b.kind(c.args[0])
            key = f"{_last(attr_chain(c.func))}#{i}"
            if k == UNSAFE and fn.qualname in EXEMPT:
                r.ok(fn, f"exempt: {EXEMPT[fn.qualname]}", key=key)
            elif k == CLIPPED:
                r.ok(fn, f"{ast.unparse(c)[:70]}: argument clipped / strictly inside the domain", key=key)
            elif k == MISPLACED:
                r.bad(
                    fn,
                    f"{fn.qualname}: '{ast.unparse(c)[:100]}': the argument is clipped to [-1, 1] and DIVIDED by a length afterwards - the clip acts on the un-normalised product (as large as the length), "
                    "so for lengths above 1 a perfectly aligned pair gives cos = 1/length instead of 1 (an angle that grows with the size of the cell), and for lengths below 1 the quotient can still leave the domain",
                    c,
                    key=key,
                )
            elif k == UNSAFE:
                r.bad(
                    fn,
                    f"{fn.qualname}: '{ast.unparse(c)[:100]}' takes the inverse cosine of a dot product of two unit vectors (or a dot product divided by the two norms) without clipping it to "
                    "[-1, 1]: for parallel or opposite directions in general position rounding gives 1.0000000000000002, the result is NaN (or a RuntimeWarning turned into an error), "
                    "although the same geometry in another orientation works",
                    c,
                    key=key,
                )
            else:
                unjudged += 1
                r.ok(fn, f"{ast.unparse(c)[:70]}: argument shape not classified (not judged)", key=key)
    r.note(f"{unjudged} inverse-trigonometric call(s) with an argument of unclassified shape are not judged")
    return r


def projected_length_rule(r: RuleRun, repo: Repo, roots: List[str]) -> None:
    """A dot product used as a LENGTH (the distance of a point from a plane, compared with an absolute tolerance) needs a unit
    direction: 'offset . normal' with the caller's un-normalised normal is the distance scaled by |normal|. For every dot
    product in the given functions and the repository functions they call, one operand must be a unit vector
    (unit_vector(...) / x / norm(x)) on every path of assignments."""
    seen = set()
    todo = [repo.func(q) for q in roots]
    while todo:
        fn = todo.pop()
        if fn.qualname in seen:
            continue
        seen.add(fn.qualname)
        b = Bounds(repo, fn)
        k = 0
        for n in ast.walk(fn.node):
            if isinstance(n, ast.Call):
                callees, _ = b.env.resolve_call(n)
                for c in callees:
                    if c.cls is None and c.qualname not in seen and c.module is fn.module:
                        todo.append(c)
                if _last(attr_chain(n.func)) == "dot":
                    ops = list(n.args) if len(n.args) == 2 else ([n.func.value, n.args[0]] if isinstance(n.func, ast.Attribute) and len(n.args) == 1 else [])
                    if len(ops) != 2:
                        continue
                    k += 1
                    kinds = [b.kind(o) for o in ops]
                    r.check(
                        UNIT in kinds or DAMPED in kinds,
                        fn,
                        f"'{ast.unparse(n)[:60]}' projects onto a unit direction",
                        f"{fn.qualname}: '{ast.unparse(n)[:80]}' is used as a distance but neither operand is a unit vector: with a normal of length L the 'distance' is L times the "
                        "real one, so an absolute tolerance accepts points up to TOL/L away (or rejects points that are on the plane)",
                        n,
                        key=f"dot#{k}",
                    )

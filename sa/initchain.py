"""Which attributes exist on an instance: the constructors that actually run for a class are followed through
``super().__init__`` / ``super(X, self).__init__`` / ``Base.__init__(self, ...)``; an attribute assigned only in a base
constructor that is never reached does not exist, and an inherited member that reads it raises AttributeError."""

from __future__ import annotations

import ast
from typing import Dict, Iterable, List, Set, Tuple

from .model import ClassInfo, FuncInfo, Repo, attr_chain
from .report import RuleRun


def _self_stores(fn: FuncInfo) -> Set[str]:
    out = set()
    selfname = fn.params[0] if fn.params else "self"
    for n in ast.walk(fn.node):
        if isinstance(n, (ast.Assign, ast.AnnAssign, ast.AugAssign)):
            for t in n.targets if isinstance(n, ast.Assign) else [n.target]:
                for x in ast.walk(t):
                    if isinstance(x, ast.Attribute) and isinstance(x.value, ast.Name) and x.value.id == selfname and isinstance(x.ctx, ast.Store):
                        out.add(x.attr)
    return out


def executed_inits(repo: Repo, cls: ClassInfo) -> Tuple[List[FuncInfo], List[ClassInfo]]:
    """(constructors that run when `cls` is instantiated, classes of the MRO whose own constructor is never reached)"""
    mro = repo.mro(cls)
    with_init = [c for c in mro if "__init__" in c.methods]
    start = repo.find_method(cls, "__init__")
    if start is None:
        return [], []
    done: List[FuncInfo] = []
    todo = [start]

    def after(c: ClassInfo):
        if c not in mro:
            return None
        for k in mro[mro.index(c) + 1 :]:
            if "__init__" in k.methods:
                return k.methods["__init__"]
        return None

    while todo:
        cur = todo.pop()
        if cur in done:
            continue
        done.append(cur)
        for c in ast.walk(cur.node):
            if not (isinstance(c, ast.Call) and isinstance(c.func, ast.Attribute) and c.func.attr == "__init__"):
                continue
            recv = c.func.value
            nxt = None
            if isinstance(recv, ast.Call) and isinstance(recv.func, ast.Name) and recv.func.id == "super":
                if recv.args and isinstance(recv.args[0], ast.Name):
                    base = repo.resolve_name(cur.module, recv.args[0].id)
                    nxt = after(base) if isinstance(base, ClassInfo) else None
                else:
                    nxt = after(cur.cls)
            elif isinstance(recv, (ast.Name, ast.Attribute)):
                base = repo.resolve_expr(cur.module, recv)
                if isinstance(base, ClassInfo) and "__init__" in base.methods:
                    nxt = base.methods["__init__"]
            if nxt is not None:
                todo.append(nxt)
    ran = {f.cls for f in done}
    return done, [c for c in with_init if c not in ran]


def init_chain_rule(repo: Repo, prop: str, rule_id: str, root: str, members: Iterable[str], floor: int = 10) -> RuleRun:
    r = RuleRun(prop, rule_id, floor=floor, what=f"the members {sorted(members)} of every class under {root.split('.')[-1]} read only attributes that the constructors actually run for that class create (a base constructor that is skipped leaves its attributes missing)")
    base = repo.cls(root)
    members = set(members)
    for cls in sorted(repo.subclasses(base), key=lambda c: c.qualname):
        if any(isinstance(d, ast.Attribute) and d.attr == "abstractmethod" or isinstance(d, ast.Name) and d.id == "abstractmethod" for m in cls.methods.values() for d in m.node.decorator_list):
            continue
        ran, skipped = executed_inits(repo, cls)
        mro = repo.mro(cls)
        defined: Set[str] = set()
        for f in ran:
            defined |= _self_stores(f)
        for c in mro:
            defined |= set(c.methods)
            defined |= set(getattr(c, "class_annotations", {}) or {})
            for st in c.node.body:
                if isinstance(st, ast.Assign):
                    defined |= {t.id for t in st.targets if isinstance(t, ast.Name)}
                elif isinstance(st, ast.AnnAssign) and isinstance(st.target, ast.Name):
                    defined.add(st.target.id)
            for m in c.methods.values():
                if m.name != "__init__":
                    defined |= _self_stores(m)
        missing: Set[str] = set()
        for c in skipped:
            missing |= _self_stores(c.methods["__init__"])
        missing -= defined
        problems = []
        for name in sorted(members):
            m = repo.find_method(cls, name)
            if m is None:
                continue
            seen, todo = set(), [m]
            while todo:
                f = todo.pop()
                if f in seen:
                    continue
                seen.add(f)
                selfname = f.params[0] if f.params else "self"
                for n in ast.walk(f.node):
                    if isinstance(n, ast.Attribute) and isinstance(n.value, ast.Name) and n.value.id == selfname and isinstance(n.ctx, ast.Load):
                        if n.attr in missing:
                            problems.append((name, f.qualname, n.attr))
                        else:
                            g = repo.find_method(cls, n.attr)
                            if g is not None and g.is_property:
                                todo.append(g)
        r.check(
            not problems,
            cls,
            f"{cls.name}: constructors run {[f.cls.name for f in ran]}; addressing members read existing attributes only",
            f"{cls.name}() runs the constructors of {[f.cls.name for f in ran]} but not of {[c.name for c in skipped]}: "
            + "; ".join(f"{cls.name}.{nm} ({q}) reads self.{a}, which only the skipped constructor creates" for nm, q, a in problems[:4])
            + " - the member raises AttributeError on every instance",
            cls.node,
            key=f"class:{cls.name}",
        )
    return r


# ---------------------------------------------------------------------------------------------------------------------
def applied_once_rule(repo: Repo, prop: str, rule_id: str, methods=("scale", "translate", "rotate", "mirror", "transform"), module_prefixes=("construct.", "base."), floor: int = 3) -> RuleRun:
    """An override that updates one of the object's own numbers itself (``self.side_1 = ratio * self.side_1``) and then hands over
    to ``super().<same method>()`` applies the change twice when the inherited method updates the same attribute: the straight
    sides of a spline ring grow with ratio squared, and everything derived from them (r_1, r_2, the outer radii that chain / expand
    read) is wrong. For every transformation method that calls its inherited version, the attributes it updates in terms of
    themselves are compared with those updated by every method further up the super() chain."""
    from .report import RuleRun

    r = RuleRun(prop, rule_id, floor=floor, what="an attribute updated in terms of itself by a transformation override is not updated again by the inherited method it calls")

    def self_updates(fn: FuncInfo) -> Set[str]:
        out: Set[str] = set()
        for n in ast.walk(fn.node):
            if isinstance(n, ast.AugAssign) and isinstance(n.target, ast.Attribute) and attr_chain(n.target.value) == fn.params[0]:
                out.add(n.target.attr)
            if isinstance(n, ast.Assign) and len(n.targets) == 1 and isinstance(n.targets[0], ast.Attribute) and attr_chain(n.targets[0].value) == fn.params[0]:
                a = n.targets[0].attr
                if any(isinstance(x, ast.Attribute) and x.attr == a and attr_chain(x.value) == fn.params[0] for x in ast.walk(n.value)):
                    out.add(a)
        return out

    def calls_super(fn: FuncInfo, name: str) -> bool:
        return any(isinstance(c, ast.Call) and isinstance(c.func, ast.Attribute) and c.func.attr == name and isinstance(c.func.value, ast.Call) and attr_chain(c.func.value.func) == "super" for c in ast.walk(fn.node))

    n = 0
    for cls in sorted(repo.classes.values(), key=lambda c: c.qualname):
        short = cls.module.name[len("classy_blocks.") :] if cls.module.name.startswith("classy_blocks.") else cls.module.name
        if not any(short.startswith(p) for p in module_prefixes):
            continue
        for name in methods:
            fn = cls.methods.get(name)
            if fn is None or not calls_super(fn, name):
                continue
            mine = self_updates(fn)
            if not mine:
                continue
            n += 1
            chain = []
            for base in repo.mro(cls)[1:]:
                up = base.methods.get(name)
                if up is None:
                    continue
                chain.append(up)
                if not calls_super(up, name):
                    break
            twice = {a: up for up in chain for a in self_updates(up) if a in mine}
            r.check(
                not twice,
                fn,
                f"{cls.name}.{name}: {sorted(mine)} updated here only",
                f"{fn.qualname} updates {sorted(twice)} in terms of themselves and then calls super().{name}(), where {next(iter(twice.values())).qualname if twice else ''} updates them again: "
                f"the change is applied twice ({cls.name}.{name}(2) multiplies {sorted(twice)[0] if twice else ''} by 4), and the radii derived from them are wrong afterwards",
                fn.node,
                key=f"{name}",
            )
    r.require(n >= floor - 2, f"only {n} self-updating overrides found")
    return r

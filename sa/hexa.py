"""The blockMesh hexahedron convention - the external oracle for all index-table rules.

    7 ---- 6         z  y
   /|     /|         | /
  4 ---- 5 |         |/
  | 3 ---| 2         o---- x
  |/     |/
  0 ---- 1

corner k has coordinates COORD[k]; sides are named after the coordinate plane they lie in.
"""

from __future__ import annotations

from typing import Dict, FrozenSet, List, Optional, Sequence, Tuple

COORD: Dict[int, Tuple[int, int, int]] = {
    0: (0, 0, 0),
    1: (1, 0, 0),
    2: (1, 1, 0),
    3: (0, 1, 0),
    4: (0, 0, 1),
    5: (1, 0, 1),
    6: (1, 1, 1),
    7: (0, 1, 1),
}
CORNER_AT = {v: k for k, v in COORD.items()}

# side name -> (axis, value)
SIDE_PLANE: Dict[str, Tuple[int, int]] = {
    "bottom": (2, 0),
    "top": (2, 1),
    "left": (0, 0),
    "right": (0, 1),
    "front": (1, 0),
    "back": (1, 1),
}
SIDE_CORNERS: Dict[str, FrozenSet[int]] = {
    name: frozenset(k for k, c in COORD.items() if c[ax] == val) for name, (ax, val) in SIDE_PLANE.items()
}
OPPOSITE = {"bottom": "top", "top": "bottom", "left": "right", "right": "left", "front": "back", "back": "front"}


def edge_axis(a: int, b: int) -> Optional[int]:
    """Axis (0,1,2) along which corners a,b differ if they are joined by a block edge, else None."""
    if a not in COORD or b not in COORD:
        return None
    diff = [i for i in range(3) if COORD[a][i] != COORD[b][i]]
    return diff[0] if len(diff) == 1 else None


EDGES: List[FrozenSet[int]] = [
    frozenset((a, b)) for a in range(8) for b in range(a + 1, 8) if edge_axis(a, b) is not None
]
assert len(EDGES) == 12


# blockMesh reads the 12 entries of edgeGrading in this order (OpenFOAM user guide, "edgeGrading"): the four x edges
# 0-1, 3-2, 7-6, 4-5, the four y edges 0-3, 1-2, 5-6, 4-7, the four z edges 0-4, 1-5, 2-6, 3-7.
EDGE_GRADING_ORDER: Tuple[Tuple[Tuple[int, int], ...], ...] = (
    ((0, 1), (3, 2), (7, 6), (4, 5)),
    ((0, 3), (1, 2), (5, 6), (4, 7)),
    ((0, 4), (1, 5), (2, 6), (3, 7)),
)


def is_edge(a: int, b: int) -> bool:
    return edge_axis(a, b) is not None


def cyclic_walks_edges(quad: Sequence[int]) -> bool:
    """True if consecutive corners of the 4-cycle are joined by block edges (no bow-tie)."""
    return len(quad) == 4 and all(is_edge(quad[i], quad[(i + 1) % 4]) for i in range(4))


def quad_normal_sign(quad: Sequence[int]) -> Optional[Tuple[int, int]]:
    """(axis, sign) of the right-hand-rule normal of a planar axis-aligned unit quad, or None."""
    p = [COORD[k] for k in quad]
    e1 = tuple(p[1][i] - p[0][i] for i in range(3))
    e2 = tuple(p[3][i] - p[0][i] for i in range(3))
    n = (
        e1[1] * e2[2] - e1[2] * e2[1],
        e1[2] * e2[0] - e1[0] * e2[2],
        e1[0] * e2[1] - e1[1] * e2[0],
    )
    nz = [i for i in range(3) if n[i] != 0]
    if len(nz) != 1:
        return None
    return nz[0], (1 if n[nz[0]] > 0 else -1)


def sides_of_corner(k: int) -> FrozenSet[str]:
    return frozenset(name for name, cs in SIDE_CORNERS.items() if k in cs)


def face_edge_side(i: int) -> str:
    """The lateral side that contains face edge i -> (i+1)%4 of the bottom face (corners 0..3)."""
    a, b = i, (i + 1) % 4
    for name in ("front", "right", "back", "left"):
        if {a, b} <= SIDE_CORNERS[name]:
            return name
    raise AssertionError


def rotations_24() -> List[Tuple[int, ...]]:
    """All 24 orientation-preserving corner renumberings of the hexahedron (as permutations p:
    new corner i is old corner p[i])."""
    import itertools

    out = []
    for perm in itertools.permutations(range(3)):
        for signs in itertools.product((0, 1), repeat=3):
            # determinant of the signed permutation matrix
            inv = sum(1 for i in range(3) for j in range(i + 1, 3) if perm[i] > perm[j])
            det = (-1) ** inv * (-1) ** sum(signs)
            if det != 1:
                continue
            p = []
            for k in range(8):
                c = COORD[k]
                src = [0, 0, 0]
                for i in range(3):
                    v = c[i]
                    src[perm[i]] = 1 - v if signs[i] else v
                p.append(CORNER_AT[tuple(src)])
            out.append(tuple(p))
    assert len(set(out)) == 24
    return out

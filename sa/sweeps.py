"""Whole-tree behaviour-preserving rewrites used as additional neutral variants (thorough tier).

  * ``roundtrip``  - every module is replaced by ``ast.unparse(ast.parse(source))``: comments gone,
                      quotes, parentheses and line breaks normalised, line numbers all different;
  * ``rename``     - in every function all purely local variables (not parameters, not names used in
                      nested scopes, not globals) are consistently renamed ``x`` -> ``x_rn``;
  * ``padding``    - a no-op statement is inserted at the top of every function body and every loop body.

None of them changes behaviour, so the findings of every rule must be exactly those of the unmodified tree.
"""

from __future__ import annotations

import ast
import builtins
import os
from typing import Dict, Set

from .model import PKG


def _sources(root: str) -> Dict[str, str]:
    out = {}
    base = os.path.join(root, "src", PKG)
    for dirpath, dirnames, filenames in os.walk(base):
        dirnames[:] = [d for d in dirnames if d != "__pycache__"]
        for fn in filenames:
            if fn.endswith(".py"):
                full = os.path.join(dirpath, fn)
                with open(full, encoding="utf-8") as fh:
                    out[os.path.relpath(full, root)] = fh.read()
    return out


def roundtrip(root: str) -> Dict[str, str]:
    return {rel: ast.unparse(ast.parse(src)) + "\n" for rel, src in _sources(root).items()}


class _Renamer(ast.NodeTransformer):
    def __init__(self, mapping: Dict[str, str]):
        self.mapping = mapping

    def visit_Name(self, node: ast.Name):
        if node.id in self.mapping:
            return ast.copy_location(ast.Name(id=self.mapping[node.id], ctx=node.ctx), node)
        return node

    def visit_FunctionDef(self, node):
        return node  # nested scopes are renamed on their own

    visit_AsyncFunctionDef = visit_FunctionDef
    visit_Lambda = visit_FunctionDef
    visit_ClassDef = visit_FunctionDef


def _rename_function(fn: ast.FunctionDef) -> None:
    params = {a.arg for a in [*fn.args.posonlyargs, *fn.args.args, *fn.args.kwonlyargs]}
    if fn.args.vararg:
        params.add(fn.args.vararg.arg)
    if fn.args.kwarg:
        params.add(fn.args.kwarg.arg)
    stored: Set[str] = set()
    nested_used: Set[str] = set()
    declared: Set[str] = set()

    def walk(node, top):
        for child in ast.iter_child_nodes(node):
            if isinstance(child, (ast.FunctionDef, ast.AsyncFunctionDef, ast.Lambda, ast.ClassDef)):
                for n in ast.walk(child):
                    if isinstance(n, ast.Name):
                        nested_used.add(n.id)
                if isinstance(child, (ast.FunctionDef, ast.ClassDef)):
                    declared.add(child.name)
                continue
            if isinstance(child, (ast.ListComp, ast.SetComp, ast.DictComp, ast.GeneratorExp)):
                # comprehension targets are local to the comprehension but share the function's names in py3 semantics for reads
                for n in ast.walk(child):
                    if isinstance(n, ast.Name) and isinstance(n.ctx, ast.Store):
                        nested_used.add(n.id)
            if isinstance(child, ast.Name) and isinstance(child.ctx, ast.Store):
                stored.add(child.id)
            if isinstance(child, (ast.Global, ast.Nonlocal)):
                declared.update(child.names)
            if isinstance(child, ast.ExceptHandler) and child.name:
                declared.add(child.name)
            walk(child, False)

    walk(fn, True)
    local = {n for n in stored if n not in params and n not in nested_used and n not in declared and not hasattr(builtins, n) and not n.startswith("_")}
    mapping = {n: f"{n}_rn" for n in local}
    if not mapping:
        return
    ren = _Renamer(mapping)
    fn.body = [ren.visit(st) if not isinstance(st, (ast.FunctionDef, ast.AsyncFunctionDef, ast.ClassDef)) else st for st in fn.body]


def rename(root: str) -> Dict[str, str]:
    out = {}
    for rel, src in _sources(root).items():
        tree = ast.parse(src)
        for node in ast.walk(tree):
            if isinstance(node, (ast.FunctionDef, ast.AsyncFunctionDef)):
                _rename_function(node)
        ast.fix_missing_locations(tree)
        out[rel] = ast.unparse(tree) + "\n"
    return out


def padding(root: str) -> Dict[str, str]:
    out = {}
    for rel, src in _sources(root).items():
        tree = ast.parse(src)
        for node in ast.walk(tree):
            if isinstance(node, (ast.FunctionDef, ast.AsyncFunctionDef)):
                pad = ast.parse("_verif_pad = None").body[0]
                first = node.body[0]
                idx = 1 if isinstance(first, ast.Expr) and isinstance(first.value, ast.Constant) and isinstance(first.value.value, str) else 0
                node.body.insert(idx, pad)
            elif isinstance(node, (ast.For, ast.While)):
                node.body.insert(0, ast.Pass())
        ast.fix_missing_locations(tree)
        out[rel] = ast.unparse(tree) + "\n"
    return out


SWEEPS = {"roundtrip": roundtrip, "rename": rename, "padding": padding}


# --- three more behaviour-preserving rewrites (added after round 3) --------------------------------------------------
class _FlipCompare(ast.NodeTransformer):
    """a < b  ->  b > a   (single-operator ordering comparisons only)"""

    FLIP = {ast.Lt: ast.Gt, ast.Gt: ast.Lt, ast.LtE: ast.GtE, ast.GtE: ast.LtE}

    def visit_Compare(self, node: ast.Compare):
        self.generic_visit(node)
        if len(node.ops) == 1 and type(node.ops[0]) in self.FLIP:
            return ast.copy_location(ast.Compare(left=node.comparators[0], ops=[self.FLIP[type(node.ops[0])]()], comparators=[node.left]), node)
        return node


def flip_compare(root: str) -> Dict[str, str]:
    out = {}
    for rel, src in _sources(root).items():
        tree = _FlipCompare().visit(ast.parse(src))
        ast.fix_missing_locations(tree)
        out[rel] = ast.unparse(tree) + "\n"
    return out


class _SwapBranches(ast.NodeTransformer):
    """if c: A else: B  ->  if not c: B else: A   (plain if/else, no elif chains)"""

    def visit_If(self, node: ast.If):
        self.generic_visit(node)
        if node.orelse and not (len(node.orelse) == 1 and isinstance(node.orelse[0], ast.If)):
            return ast.copy_location(ast.If(test=ast.UnaryOp(op=ast.Not(), operand=node.test), body=node.orelse, orelse=node.body), node)
        return node


def swap_branches(root: str) -> Dict[str, str]:
    out = {}
    for rel, src in _sources(root).items():
        tree = _SwapBranches().visit(ast.parse(src))
        ast.fix_missing_locations(tree)
        out[rel] = ast.unparse(tree) + "\n"
    return out


class _ReturnTemp(ast.NodeTransformer):
    """return <call or operator expression>  ->  _rv = <expr>; return _rv   (not inside lambdas / generators)"""

    def _block(self, stmts):
        out = []
        for st in stmts:
            st = self.visit(st)
            if isinstance(st, ast.Return) and isinstance(st.value, (ast.Call, ast.BinOp, ast.Compare, ast.BoolOp, ast.Subscript)):
                out.append(ast.copy_location(ast.Assign(targets=[ast.Name(id="_rv", ctx=ast.Store())], value=st.value), st))
                out.append(ast.copy_location(ast.Return(value=ast.Name(id="_rv", ctx=ast.Load())), st))
            else:
                out.append(st)
        return out

    def generic_visit(self, node):
        for field in ("body", "orelse", "finalbody"):
            v = getattr(node, field, None)
            if isinstance(v, list) and v and isinstance(v[0], ast.stmt):
                setattr(node, field, self._block(v))
        if isinstance(node, ast.Try):
            for h in node.handlers:
                h.body = self._block(h.body)
        return node


def return_temp(root: str) -> Dict[str, str]:
    out = {}
    for rel, src in _sources(root).items():
        tree = _ReturnTemp().visit(ast.parse(src))
        ast.fix_missing_locations(tree)
        out[rel] = ast.unparse(tree) + "\n"
    return out


SWEEPS.update({"flip_compare": flip_compare, "swap_branches": swap_branches, "return_temp": return_temp})
